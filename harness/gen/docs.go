package gen

import (
	"math"
	"sort"
	"strings"

	"verif/harness/model"
)

// Field vocabulary. Prefix pairs (x, xy), dotted siblings (n, n.a, n.b) and
// odd names are there on purpose.
var fieldVocab = []string{"a", "b", "x", "xy", "n.a", "n.b", "t", "s", "arr", "obj", "é", "k:1", "a b", "k%d", "k2", "100%s"}

type Schema struct {
	Fields  []string
	Prof    map[string]Profile
	NScalar int // percent of documents in which "n" is a scalar instead of an object
	Pad     int // maximum padding bytes (0 = none)
}

func (r *Rng) Schema() *Schema {
	s := &Schema{Prof: map[string]Profile{}}
	for _, f := range fieldVocab {
		if f == "a" || f == "x" || r.P(65) {
			s.Fields = append(s.Fields, f)
			s.Prof[f] = r.Profile()
		}
	}
	if r.P(50) {
		s.NScalar = 10
	}
	switch r.Intn(4) {
	case 0:
		s.Pad = 40
	case 1:
		s.Pad = 600
	}
	return s
}

// SchemaWith forces the given fields to the given profile kinds (others random).
func (r *Rng) SchemaWith(force map[string]Profile) *Schema {
	s := r.Schema()
	names := make([]string, 0, len(force))
	for f := range force {
		names = append(names, f)
	}
	sort.Strings(names) // never the map's own order: a case is a pure function of its seed
	for _, f := range names {
		if _, ok := s.Prof[f]; !ok {
			s.Fields = append(s.Fields, f)
		}
		s.Prof[f] = force[f]
	}
	return s
}

func (s *Schema) Has(f string) bool { _, ok := s.Prof[f]; return ok }

// IndexableFields lists the fields an index may be put on in this schema.
func (s *Schema) IndexableFields() []string {
	out := []string{}
	for _, f := range s.Fields {
		if s.Prof[f].Kind == PBigInt || s.Prof[f].Kind == PTimeFar {
			continue // index keys are only specified within 2^53 and from 1970 to the end of the UnixNano range (C10)
		}
		out = append(out, f)
	}
	if (s.Has("n.a") || s.Has("n.b")) && s.Prof["n.a"].Kind != PBigInt && s.Prof["n.b"].Kind != PBigInt && s.Prof["n.a"].Kind != PTimeFar && s.Prof["n.b"].Kind != PTimeFar {
		out = append(out, "n") // the object itself, unless it holds integers beyond 2^53
	}
	return out
}

// Doc draws a document (without _id).
func (r *Rng) Doc(s *Schema) map[string]any {
	d := map[string]any{}
	for _, f := range s.Fields {
		p := s.Prof[f]
		if r.P(p.Absent) {
			continue
		}
		var v any
		if f == "obj" && r.P(70) {
			v = r.Object(2)
		} else {
			v = r.Value(p)
		}
		model.SetPath(d, f, v)
	}
	if s.NScalar > 0 && r.P(s.NScalar) {
		if r.Bool() {
			d["n"] = r.SmallInt()
		} else {
			d["n"] = nil
		}
	}
	if s.Pad > 0 {
		d["pad"] = strings.Repeat("p", r.Intn(s.Pad+1))
	}
	return d
}

func (r *Rng) DocWithID(s *Schema) map[string]any {
	d := r.Doc(s)
	d["_id"] = r.UUIDMaybeUpper()
	return d
}

// ---------------------------------------------------------------- criteria

var funcLib = []*model.NamedFunc{
	{Name: "a_is_string", F: func(get func(string) any, has func(string) bool) bool { _, ok := get("a").(string); return ok }},
	{Name: "has_b", F: func(get func(string) any, has func(string) bool) bool { return has("b") }},
	{Name: "x_is_even_int", F: func(get func(string) any, has func(string) bool) bool {
		n, ok := get("x").(int64)
		return ok && n%2 == 0
	}},
	{Name: "always_true", F: func(get func(string) any, has func(string) bool) bool { return true }},
	{Name: "always_false", F: func(get func(string) any, has func(string) bool) bool { return false }},
	{Name: "arr_len_ge_2", F: func(get func(string) any, has func(string) bool) bool {
		s, ok := get("arr").([]any)
		return ok && len(s) >= 2
	}},
	{Name: "n_is_object", F: func(get func(string) any, has func(string) bool) bool {
		_, ok := get("n").(map[string]any)
		return ok
	}},
}

var likePatterns = []string{"^a", "b$", "a.*b", "^$", ".", "a|b", "[0-9]+", "^(ab)+$", "\\x00", "[", "(?i)A", "a b"}

type CritCtx struct {
	S       *Schema
	Docs    []map[string]any // documents to draw hitting values from (may be empty)
	Bias    []string         // fields to prefer (e.g. the indexed ones)
	NoFunc  bool
	GoTypes bool // sometimes supply numeric literals as other Go numeric types
}

func (r *Rng) critField(cx *CritCtx) string {
	if len(cx.Bias) > 0 && r.P(65) {
		return Pick(r, cx.Bias)
	}
	if r.P(6) {
		return "_id"
	}
	if r.P(4) {
		return "nope" // never present
	}
	if r.P(5) && (cx.S.Has("n.a") || cx.S.Has("n.b")) {
		return "n"
	}
	return Pick(r, cx.S.Fields)
}

func goVariant(r *Rng, v any) any {
	switch n := v.(type) {
	case int64:
		if n >= 0 && n <= 100 {
			switch r.Intn(10) {
			case 0:
				return int(n)
			case 1:
				return int8(n)
			case 2:
				return int16(n)
			case 3:
				return int32(n)
			case 4:
				return n
			}
			return nil
		}
		if n >= -100 && n < 0 {
			switch r.Intn(4) {
			case 0:
				return int(n)
			case 1:
				return int8(n)
			case 2:
				return int32(n)
			}
		}
	case uint64:
		if n <= 100 {
			switch r.Intn(5) {
			case 0:
				return uint(n)
			case 1:
				return uint8(n)
			case 2:
				return uint16(n)
			case 3:
				return uint32(n)
			}
		}
	case float64:
		if float64(float32(n)) == n && r.P(40) {
			return float32(n)
		}
	}
	return nil
}

func (r *Rng) literalFor(cx *CritCtx, f string) any {
	// a value some document actually holds in that field
	if len(cx.Docs) > 0 && r.P(60) {
		d := Pick(r, cx.Docs)
		if v, ok := model.Lookup(d, f); ok {
			return model.DeepCopy(v)
		}
	}
	if r.P(10) {
		return nil
	}
	if p, ok := cx.S.Prof[f]; ok && r.P(75) {
		return r.Value(Profile{Kind: p.Kind})
	}
	if f == "_id" {
		if len(cx.Docs) > 0 {
			return Pick(r, cx.Docs)["_id"]
		}
		return r.UUID()
	}
	if r.P(50) {
		return r.Scalar()
	}
	return r.Nested(2)
}

func (r *Rng) operand(cx *CritCtx, f string) model.Operand {
	if r.P(10) {
		other := r.critField(cx)
		if r.Bool() {
			return model.RefF(other)
		}
		if !strings.ContainsAny(other, "$") {
			return model.RefD(other)
		}
	}
	o := model.L(r.literalFor(cx, f))
	if cx.GoTypes {
		o.Go = goVariant(r, o.Val)
	}
	return o
}

func (r *Rng) Leaf(cx *CritCtx) *model.Crit {
	f := r.critField(cx)
	//            Exists NotEx Eq  Neq Gt GtEq Lt LtEq In Contains Like Func
	w := []int{5, 5, 16, 8, 10, 10, 10, 10, 9, 5, 5, 3}
	if cx.NoFunc {
		w[11] = 0
	}
	op := model.OpKind(r.Weighted(w))
	c := &model.Crit{Op: op, Field: f}
	switch op {
	case model.OpEq, model.OpNeq, model.OpGt, model.OpGtEq, model.OpLt, model.OpLtEq:
		c.Arg = r.operand(cx, f)
	case model.OpIn:
		n := r.Range(1, 4)
		litOnly := false
		if r.P(16) {
			// long lists (an implementation may switch to a lookup table above 8, 16, 32 or 64 elements), most of
			// them made of literals only: the same numbers as other kinds, other types, duplicates
			n = Pick(r, []int{8, 12, 16, 17, 33, 40, 70})
			litOnly = r.P(75)
		}
		for i := 0; i < n; i++ {
			if litOnly {
				v := r.literalFor(cx, f)
				if i >= 4 && r.P(50) {
					v = r.MixedNum() // filler the field rarely holds, as int64 / uint64 / float64
				}
				if a, isArr := v.([]any); isArr && len(a) == 0 || v == nil && r.Bool() {
					v = r.SmallInt()
				}
				o := model.L(v)
				if cx.GoTypes {
					o.Go = goVariant(r, o.Val)
				}
				c.Args = append(c.Args, o)
				continue
			}
			c.Args = append(c.Args, r.operand(cx, f))
		}
	case model.OpContains:
		// draw elements from array members held by documents
		n := r.Range(1, 3)
		for i := 0; i < n; i++ {
			var el any = r.SmallInt()
			if len(cx.Docs) > 0 && r.P(70) {
				if arr, ok := model.Get(Pick(r, cx.Docs), f).([]any); ok && len(arr) > 0 {
					el = model.DeepCopy(Pick(r, arr))
				}
			}
			o := model.L(el)
			if r.P(8) {
				o = model.RefF(r.critField(cx))
			}
			if cx.GoTypes && o.Kind == model.Lit {
				o.Go = goVariant(r, o.Val)
			}
			c.Args = append(c.Args, o)
		}
	case model.OpLike:
		c.Pattern = Pick(r, likePatterns)
	case model.OpFunc:
		c.Func = Pick(r, funcLib)
		c.Field = ""
	}
	return c
}

// Crit draws a criteria tree of at most the given depth.
func (r *Rng) Crit(cx *CritCtx, depth int) *model.Crit {
	if depth <= 1 || r.P(35) {
		return r.Leaf(cx)
	}
	switch r.Intn(10) {
	case 0, 1, 2, 3:
		return model.And(r.Crit(cx, depth-1), r.Crit(cx, depth-1))
	case 4, 5, 6:
		return model.Or(r.Crit(cx, depth-1), r.Crit(cx, depth-1))
	default:
		return model.Not(r.Crit(cx, depth-1))
	}
}

// PlannerCrit draws criteria shaped like the cells the planner distinguishes:
// conjunctions / disjunctions of comparisons on one or two (indexed) fields.
func (r *Rng) PlannerCrit(cx *CritCtx) *model.Crit {
	f := r.critField(cx)
	cmpOps := []model.OpKind{model.OpEq, model.OpNeq, model.OpGt, model.OpGtEq, model.OpLt, model.OpLtEq}
	leaf := func(field string) *model.Crit {
		switch r.Intn(12) {
		case 0:
			return &model.Crit{Op: model.OpIn, Field: field, Args: []model.Operand{r.operand(cx, field), r.operand(cx, field)}}
		case 1:
			if r.Bool() {
				return &model.Crit{Op: model.OpExists, Field: field}
			}
			return &model.Crit{Op: model.OpNotExists, Field: field}
		}
		return model.Cmp(Pick(r, cmpOps), field, r.operand(cx, field))
	}
	g := f
	if r.P(35) {
		g = r.critField(cx)
	}
	var c *model.Crit
	switch r.Intn(8) {
	case 0:
		c = leaf(f)
	case 1, 2:
		c = model.And(leaf(f), leaf(g))
	case 3:
		c = model.Or(leaf(f), leaf(g))
	case 4:
		c = model.Not(leaf(f))
	case 5:
		c = model.Not(model.And(leaf(f), leaf(g)))
	case 6:
		c = model.And(leaf(f), model.Or(leaf(g), leaf(f)))
	default:
		c = model.Not(model.Not(leaf(f)))
		if r.Bool() {
			c = model.Not(c)
		}
	}
	return c
}

// ---------------------------------------------------------------- queries

type QueryCtx struct {
	Crit     *CritCtx
	Coll     string
	N        int // current collection size (for window choice)
	SortBias []string
	// percentages; 0 means the default
	CritPct, SortPct, WinPct int
}

func pct(v, def int) int {
	if v == 0 {
		return def
	}
	if v < 0 {
		return 0
	}
	return v
}

func (r *Rng) sortField(qc *QueryCtx) string {
	if len(qc.SortBias) > 0 && r.P(55) {
		return Pick(r, qc.SortBias)
	}
	if r.P(10) {
		return "_id"
	}
	if r.P(4) {
		return "nope"
	}
	return Pick(r, qc.Crit.S.Fields)
}

func (r *Rng) windowVal(n int) int {
	switch r.Intn(8) {
	case 0:
		return -1 - r.Intn(3)*r.Intn(4)
	case 1:
		return 0
	case 2:
		return 1
	case 3:
		return n
	case 4:
		return n + 3
	case 5:
		if r.P(20) {
			return math.MaxInt - r.Intn(3) // "no limit" idioms
		}
		if n > 1 {
			return n - 1
		}
		return 1
	default:
		if n > 0 {
			return r.Intn(n + 1)
		}
		return 2
	}
}

func (r *Rng) Query(qc *QueryCtx) *model.Query {
	q := &model.Query{Coll: qc.Coll}
	if r.P(pct(qc.CritPct, 75)) {
		if r.P(50) {
			q.Crit = r.PlannerCrit(qc.Crit)
		} else {
			q.Crit = r.Crit(qc.Crit, r.Range(1, 4))
		}
	}
	if r.P(pct(qc.SortPct, 45)) {
		q.Sorted = true
		switch r.Intn(10) {
		case 0: // Sort() = by _id
		case 1, 2, 3, 4, 5:
			q.Sort = []model.SortOpt{{Field: r.sortField(qc), Dir: r.dir()}}
		case 6, 7, 8:
			q.Sort = []model.SortOpt{{Field: r.sortField(qc), Dir: r.dir()}, {Field: r.sortField(qc), Dir: r.dir()}}
		default:
			q.Sort = []model.SortOpt{{Field: r.sortField(qc), Dir: r.dir()}, {Field: r.sortField(qc), Dir: r.dir()}, {Field: "_id", Dir: r.dir()}}
		}
	}
	if r.P(pct(qc.WinPct, 35)) {
		q.HasSkip = true
		q.Skip = r.windowVal(qc.N)
	}
	if r.P(pct(qc.WinPct, 35)) {
		q.HasLimit = true
		q.Limit = r.windowVal(qc.N)
	}
	return q
}

func (r *Rng) dir() int {
	switch r.Intn(7) {
	case 0:
		return 0
	case 1:
		return 2
	case 2:
		return -3
	case 3, 4:
		return -1
	default:
		return 1
	}
}
