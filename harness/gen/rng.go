// Package gen holds the seeded generators. Everything derives from one
// splitmix64 stream so that a (seed, shard, case) triple replays exactly.
package gen

import (
	"fmt"
	"strings"
)

type Rng struct{ s uint64 }

func New(seed uint64) *Rng { return &Rng{s: seed} }

func Mix(a uint64, bs ...uint64) uint64 {
	x := a
	for _, b := range bs {
		x ^= b + 0x9e3779b97f4a7c15 + (x << 6) + (x >> 2)
		x = (&Rng{s: x}).U64()
	}
	return x
}

func (r *Rng) U64() uint64 {
	r.s += 0x9e3779b97f4a7c15
	z := r.s
	z = (z ^ (z >> 30)) * 0xbf58476d1ce4e5b9
	z = (z ^ (z >> 27)) * 0x94d049bb133111eb
	return z ^ (z >> 31)
}

// Intn returns a value in [0,n).
func (r *Rng) Intn(n int) int {
	if n <= 0 {
		return 0
	}
	return int(r.U64() % uint64(n))
}

// Range returns a value in [lo,hi].
func (r *Rng) Range(lo, hi int) int { return lo + r.Intn(hi-lo+1) }

func (r *Rng) Bool() bool { return r.U64()&1 == 1 }

// P is true with probability pct/100.
func (r *Rng) P(pct int) bool { return r.Intn(100) < pct }

func (r *Rng) Float() float64 { return float64(r.U64()>>11) / float64(uint64(1)<<53) }

func (r *Rng) Fork() *Rng { return New(r.U64()) }

func Pick[T any](r *Rng, xs []T) T { return xs[r.Intn(len(xs))] }

// Weighted picks an index according to integer weights.
func (r *Rng) Weighted(ws []int) int {
	t := 0
	for _, w := range ws {
		t += w
	}
	x := r.Intn(t)
	for i, w := range ws {
		if x < w {
			return i
		}
		x -= w
	}
	return len(ws) - 1
}

func (r *Rng) Shuffle(n int, swap func(i, j int)) {
	for i := n - 1; i > 0; i-- {
		swap(i, r.Intn(i+1))
	}
}

// UUID returns a canonical 36-character UUID (version 4 layout) drawn from the stream.
func (r *Rng) UUID() string {
	a, b := r.U64(), r.U64()
	a = (a &^ 0xf000) | 0x4000                     // version nibble inside time_hi
	b = (b &^ (0xc0 << 56)) | (uint64(0x80) << 56) // variant
	s := fmt.Sprintf("%08x-%04x-%04x-%04x-%012x", uint32(a>>32), uint16(a>>16), uint16(a), uint16(b>>48), b&0xffffffffffff)
	return s
}

// UUIDMaybeUpper returns a canonical UUID, upper-case hex one time in eight.
func (r *Rng) UUIDMaybeUpper() string {
	s := r.UUID()
	if r.Intn(8) == 0 {
		return strings.ToUpper(s)
	}
	return s
}
