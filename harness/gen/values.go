package gen

import (
	"math"
	"time"
)

// Profile kinds for a field.
const (
	PSmallInt = iota // int64 in a small range: many duplicates, criteria hit
	PMixedNum        // the same numeric values as int64 / uint64 / float64, plus fractions
	PString
	PTime
	PMixed // any type
	PArray
	PBoolNil
	PBigInt // integers beyond 2^53 (never indexed, never compared with floats by construction of literals)
	nProfiles
)

type Profile struct {
	Kind   int
	Absent int // percent
	Nil    int // percent
}

var stringPool = []string{"", "a", "ab", "abc", "b", "ba", "a\x00", "a\x00b", "a\xff", "\xff", "\xff\xff", "é", "zz", "A", "a b", "0", "10", "9"}

var zones = []*time.Location{
	time.UTC,
	time.FixedZone("", 3600),
	time.FixedZone("X", -7*3600),
	time.FixedZone("Y", 5*3600+1800),
	time.FixedZone("Z", -3600*11-60),
}

const timeBase = int64(1_600_000_000) // seconds

func (r *Rng) SmallInt() any { return int64(r.Range(-3, 12)) }

func (r *Rng) MixedNum() any {
	n := r.Range(-3, 12)
	switch r.Intn(6) {
	case 0, 1:
		return int64(n)
	case 2:
		if n >= 0 {
			return uint64(n)
		}
		return int64(n)
	case 3:
		return float64(n)
	case 4:
		return float64(n) + 0.5
	default:
		return float64(n) - 0.25
	}
}

func (r *Rng) Str() any { return Pick(r, stringPool) }

func (r *Rng) Time() any {
	sec := timeBase + int64(r.Range(-5, 5))
	ns := int64(0)
	if r.P(30) {
		ns = int64(r.Intn(3)) * 500_000_001 % 1_000_000_000
	}
	return time.Unix(sec, ns).In(Pick(r, zones))
}

// TimeWide returns a time anywhere from 1970 to 2200 with random nanoseconds and zone.
func (r *Rng) TimeWide() time.Time {
	sec := int64(r.U64() % uint64(230*365*24*3600))
	return time.Unix(sec, int64(r.Intn(1_000_000_000))).In(Pick(r, zones))
}

func (r *Rng) BigInt() any {
	switch r.Intn(6) {
	case 0:
		return int64(math.MaxInt64) - int64(r.Intn(3))
	case 1:
		return int64(math.MinInt64) + int64(r.Intn(3))
	case 2:
		return uint64(math.MaxUint64) - uint64(r.Intn(3))
	case 3:
		return uint64(1<<63) + uint64(r.Intn(5)) - 2
	case 4:
		return int64(1<<53) + int64(r.Intn(5))
	default:
		return -int64(1<<53) - int64(r.Intn(5))
	}
}

func (r *Rng) Scalar() any {
	switch r.Intn(7) {
	case 0:
		return nil
	case 1:
		return r.Bool()
	case 2:
		return r.SmallInt()
	case 3:
		return r.MixedNum()
	case 4:
		return r.Str()
	case 5:
		return r.Time()
	default:
		return r.SmallInt()
	}
}

func (r *Rng) Array(depth int) any {
	n := r.Intn(4)
	s := make([]any, n)
	for i := range s {
		s[i] = r.Nested(depth - 1)
	}
	return s
}

func (r *Rng) Object(depth int) any {
	keys := []string{"a", "b", "c", "k"}
	n := r.Intn(4)
	m := make(map[string]any, n)
	for i := 0; i < n; i++ {
		m[Pick(r, keys)] = r.Nested(depth - 1)
	}
	return m
}

// Nested returns any value, containers nested up to depth.
func (r *Rng) Nested(depth int) any {
	if depth <= 0 || r.P(60) {
		return r.Scalar()
	}
	if r.Bool() {
		return r.Array(depth)
	}
	return r.Object(depth)
}

// Value draws a value for a field profile (never "absent": the caller decides that).
func (r *Rng) Value(p Profile) any {
	if r.P(p.Nil) {
		return nil
	}
	switch p.Kind {
	case PSmallInt:
		return r.SmallInt()
	case PMixedNum:
		return r.MixedNum()
	case PString:
		return r.Str()
	case PTime:
		return r.Time()
	case PArray:
		if r.P(85) {
			n := r.Intn(4)
			s := make([]any, n)
			for i := range s {
				if r.P(80) {
					s[i] = r.SmallInt()
				} else {
					s[i] = r.Scalar()
				}
			}
			return s
		}
		return r.Scalar()
	case PBoolNil:
		switch r.Intn(3) {
		case 0:
			return nil
		default:
			return r.Bool()
		}
	case PBigInt:
		if r.P(60) {
			return r.BigInt()
		}
		return int64(r.Range(-3, 12))
	}
	return r.Nested(2)
}

func (r *Rng) Profile() Profile {
	kinds := []int{PSmallInt, PSmallInt, PMixedNum, PMixedNum, PString, PTime, PMixed, PMixed, PArray, PBoolNil}
	p := Profile{Kind: Pick(r, kinds)}
	switch r.Intn(4) {
	case 0:
	case 1:
		p.Absent = 25
	case 2:
		p.Nil = 20
	case 3:
		p.Absent, p.Nil = 15, 15
	}
	return p
}
