package gen

import (
	"math"
	"strings"
	"time"
)

// Profile kinds for a field.
const (
	PSmallInt = iota // int64 in a small range: many duplicates, criteria hit
	PMixedNum        // the same numeric values as int64 / uint64 / float64, plus fractions
	PString
	PTime
	PMixed // any type
	PArray
	PBoolNil
	PBigInt  // integers beyond 2^53 (never indexed, never compared with floats by construction of literals)
	PEdge    // values whose order-preserving encodings end in 0xFF / 0x00 bytes, and their neighbours (inside the key domain)
	PTimeFar // times anywhere between year 1 and 9999 (outside the UnixNano range: compared and sorted, never indexed)
	PLongStr // strings of 300 to 8200 bytes with common prefixes of 1023 / 1024 / 8192 bytes (indexable: far below the stores' key limits)
	nProfiles
)

// edgeValues: encodings with trailing 0xFF / 0x00 bytes, adjacent representable values, all within 2^53 / after 1970.
var edgeValues = []any{
	int64(1<<53 - 1), int64(1<<53 - 2), float64(1<<53 - 1), int64(1 << 53), int64(-(1<<53 - 1)), int64(-(1 << 53)),
	float64(1.9999999999999998), float64(2), float64(2.0000000000000004), float64(-1.9999999999999998), float64(-2),
	int64(255), int64(256), int64(65535), int64(65536), float64(255.99999999999997), float64(0.49999999999999994), float64(0.5),
	math.MaxFloat64, -math.MaxFloat64, math.SmallestNonzeroFloat64, float64(0),
	time.Unix(1_600_000_000, 255).UTC(), time.Unix(1_600_000_000, 256).UTC(), time.Unix(1_600_000_000, 254).UTC(), time.Unix(1_600_000_000, 511).UTC(), time.Unix(0, 255).UTC(), time.Unix(0, 0).UTC(),
	"a\xff", "a\xff\xff", "a\xfe", "b", "a", "a\x00", "\xff",
	uint64(1<<53 - 1), uint64(255),
}

var k1024, q8192 = strings.Repeat("k", 1024), strings.Repeat("q", 8192)

// longStrings differ only behind a long common prefix (or are a prefix of one another). Database-level
// histories stay around 1 KB (hundreds of documents must fit one badger transaction); LongStringsAll adds the
// 8 KB class for index-level and comparison-level engines.
var longStrings = []string{k1024[:1023], k1024, k1024 + "a", k1024 + "b", k1024 + "a\x00", k1024 + "\xff", strings.Repeat("m", 300), "k", "l", ""}

var LongStringsAll = append(append([]string{}, longStrings...), q8192, q8192+"x", q8192+"y", q8192[:8191])

// EdgeValues returns the values whose key encodings end in 0xFF / 0x00 bytes (and their neighbours).
func EdgeValues() []any { return append([]any(nil), edgeValues...) }

type Profile struct {
	Kind   int
	Absent int // percent
	Nil    int // percent
}

var stringPool = []string{"", "a", "ab", "abc", "b", "ba", "a\x00", "a\x00b", "a\xff", "\xff", "\xff\xff", "é", "zz", "A", "a b", "0", "10", "9", "$a", "$x", "$"}

var zones = []*time.Location{
	time.UTC,
	time.FixedZone("", 3600),
	time.FixedZone("X", -7*3600),
	time.FixedZone("Y", 5*3600+1800),
	time.FixedZone("Z", -3600*11-60),
	time.FixedZone("LMT", 2*3600+30), // positive sub-minute offsets survive Go's binary time encoding (negative ones do not)
	time.FixedZone("", 2*3600),
}

const timeBase = int64(1_600_000_000) // seconds

func (r *Rng) SmallInt() any { return int64(r.Range(-3, 12)) }

func (r *Rng) MixedNum() any {
	n := r.Range(-3, 12)
	switch r.Intn(6) {
	case 0, 1:
		return int64(n)
	case 2:
		if n >= 0 {
			return uint64(n)
		}
		return int64(n)
	case 3:
		return float64(n)
	case 4:
		return float64(n) + 0.5
	default:
		return float64(n) - 0.25
	}
}

func (r *Rng) Str() any { return Pick(r, stringPool) }

func (r *Rng) Time() any {
	sec := timeBase + int64(r.Range(-5, 5))
	ns := int64(0)
	if r.P(30) {
		ns = int64(r.Intn(3)) * 500_000_001 % 1_000_000_000
	}
	return time.Unix(sec, ns).In(Pick(r, zones))
}

// TimeWide returns a time anywhere from 1970 to 2200 with random nanoseconds and zone.
func (r *Rng) TimeWide() time.Time {
	sec := int64(r.U64() % uint64(230*365*24*3600))
	return time.Unix(sec, int64(r.Intn(1_000_000_000))).In(Pick(r, zones))
}

func (r *Rng) BigInt() any {
	switch r.Intn(6) {
	case 0:
		return int64(math.MaxInt64) - int64(r.Intn(3))
	case 1:
		return int64(math.MinInt64) + int64(r.Intn(3))
	case 2:
		return uint64(math.MaxUint64) - uint64(r.Intn(3))
	case 3:
		return uint64(1<<63) + uint64(r.Intn(5)) - 2
	case 4:
		return int64(1<<53) + int64(r.Intn(5))
	default:
		return -int64(1<<53) - int64(r.Intn(5))
	}
}

func (r *Rng) Scalar() any {
	switch r.Intn(7) {
	case 0:
		return nil
	case 1:
		return r.Bool()
	case 2:
		return r.SmallInt()
	case 3:
		return r.MixedNum()
	case 4:
		return r.Str()
	case 5:
		return r.Time()
	default:
		return r.SmallInt()
	}
}

func (r *Rng) Array(depth int) any {
	n := r.Intn(4)
	s := make([]any, n)
	for i := range s {
		s[i] = r.Nested(depth - 1)
	}
	return s
}

func (r *Rng) Object(depth int) any {
	keys := []string{"a", "b", "c", "k"}
	n := r.Intn(4)
	m := make(map[string]any, n)
	for i := 0; i < n; i++ {
		m[Pick(r, keys)] = r.Nested(depth - 1)
	}
	return m
}

// Nested returns any value, containers nested up to depth.
func (r *Rng) Nested(depth int) any {
	if depth <= 0 || r.P(60) {
		return r.Scalar()
	}
	if r.Bool() {
		return r.Array(depth)
	}
	return r.Object(depth)
}

// Value draws a value for a field profile (never "absent": the caller decides that).
func (r *Rng) Value(p Profile) any {
	if r.P(p.Nil) {
		return nil
	}
	switch p.Kind {
	case PSmallInt:
		return r.SmallInt()
	case PMixedNum:
		return r.MixedNum()
	case PString:
		return r.Str()
	case PTime:
		return r.Time()
	case PArray:
		if r.P(85) {
			n := r.Intn(4)
			s := make([]any, n)
			for i := range s {
				if r.P(80) {
					s[i] = r.SmallInt()
				} else {
					s[i] = r.Scalar()
				}
			}
			return s
		}
		return r.Scalar()
	case PBoolNil:
		switch r.Intn(3) {
		case 0:
			return nil
		default:
			return r.Bool()
		}
	case PBigInt:
		if r.P(60) {
			return r.BigInt()
		}
		return int64(r.Range(-3, 12))
	case PEdge:
		return Pick(r, edgeValues)
	case PLongStr:
		return Pick(r, longStrings)
	case PTimeFar:
		if r.P(30) {
			return r.Time()
		}
		return time.Date(Pick(r, []int{1, 1500, 1600, 1677, 1700, 1969, 2038, 2262, 2300, 9999}), time.Month(r.Range(1, 12)), r.Range(1, 28), r.Intn(24), 0, 0, r.Intn(2)*999, time.UTC)
	}
	return r.Nested(2)
}

func (r *Rng) Profile() Profile {
	kinds := []int{PSmallInt, PSmallInt, PMixedNum, PMixedNum, PString, PTime, PMixed, PMixed, PArray, PBoolNil, PSmallInt, PMixedNum, PBigInt, PEdge, PTimeFar, PLongStr}
	p := Profile{Kind: Pick(r, kinds)}
	switch r.Intn(4) {
	case 0:
	case 1:
		p.Absent = 25
	case 2:
		p.Nil = 20
	case 3:
		p.Absent, p.Nil = 15, 15
	}
	return p
}

// ---- rich values for the round-trip check (C11): every type at every position

func (r *Rng) richTime() time.Time {
	var sec int64
	switch r.Intn(5) {
	case 0:
		sec = -int64(r.U64() % uint64(250*365*24*3600)) // before 1970
	case 1:
		sec = int64(r.U64() % uint64(8000*365*24*3600)) // far future, beyond the UnixNano range
	default:
		sec = int64(r.U64() % uint64(230*365*24*3600))
	}
	off := r.Range(-14*60, 14*60) * 60 // whole-minute zone offsets
	if off == -60 {
		off = 0 // Go's binary time encoding reserves the offset of -1 minute
	}
	if off >= 0 && r.P(25) {
		off += r.Intn(60) // east of UTC sub-minute offsets are preserved by Go's encoding
	}
	if r.P(30) {
		return time.Unix(sec, int64(r.Intn(1_000_000_000))).UTC()
	}
	return time.Unix(sec, int64(r.Intn(1_000_000_000))).In(time.FixedZone("", off))
}

func (r *Rng) richScalar() any {
	switch r.Intn(16) {
	case 0:
		return nil
	case 1:
		return r.Bool()
	case 2:
		return int64(r.U64())
	case 3:
		return r.U64()
	case 4:
		return Pick(r, []any{int64(math.MaxInt64), int64(math.MinInt64), uint64(math.MaxUint64), int64(0), uint64(0), int64(-1), uint64(1) << 63})
	case 5:
		return Pick(r, []any{float64(0), math.Copysign(0, -1), math.MaxFloat64, -math.MaxFloat64, math.SmallestNonzeroFloat64, math.Inf(1), math.Inf(-1), 0.1, -1e-300})
	case 6:
		return math.Float64frombits(r.U64()&^(0x7ff<<52) | uint64(r.Intn(2046)+1)<<52)
	case 7:
		return ""
	case 8:
		n := r.Intn(12)
		b := make([]byte, n)
		for i := range b {
			b[i] = byte(r.Intn(256)) // arbitrary bytes: mostly not UTF-8
		}
		return string(b)
	case 9:
		return Pick(r, []string{"héllo", "日本語", "a\x00b", "$x", "with.dot", " ", "\xff\xfe"})
	case 10, 11:
		return r.richTime()
	case 12:
		return int64(r.Range(-1000, 1000))
	case 13:
		return float64(r.Range(-1000, 1000)) / 8
	default:
		return r.Str()
	}
}

// Rich returns a value with containers nested up to depth, every type at every position.
func (r *Rng) Rich(depth int) any {
	if depth <= 0 || r.P(45) {
		return r.richScalar()
	}
	if r.Bool() {
		n := r.Intn(4)
		s := make([]any, n)
		for i := range s {
			s[i] = r.Rich(depth - 1)
		}
		return s
	}
	n := r.Intn(4)
	m := make(map[string]any, n)
	for i := 0; i < n; i++ {
		m[Pick(r, []string{"a", "b", "c", "k", "é", "", "x y"})] = r.Rich(depth - 1)
	}
	return m
}

// RichDoc returns a document (without _id) of rich values.
func (r *Rng) RichDoc() map[string]any {
	d := map[string]any{}
	n := r.Range(1, 7)
	for i := 0; i < n; i++ {
		d[Pick(r, []string{"a", "b", "c", "d", "e", "f", "g", "arr", "obj", "é"})] = r.Rich(4)
	}
	return d
}
