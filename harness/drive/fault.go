package drive

import (
	"errors"
	"fmt"
	"os"
	"path/filepath"
	"sort"
	"strings"

	badger "github.com/dgraph-io/badger/v4"
	"github.com/ostafen/clover/v2/document"
	"github.com/ostafen/clover/v2/query"

	"verif/harness/core"
	"verif/harness/gen"
	"verif/harness/model"
	"verif/harness/mon"
)

// faultOp is a re-executable public operation.
type faultOp struct {
	name string
	read bool
	run  func() error
}

type faultRun struct {
	*seqRun
	dir  string
	coll string
	q    func() *query.Query // a criteria query hitting some documents
}

func (f *faultRun) someID() string {
	mc := f.coll_()
	if len(mc.Docs) == 0 {
		return f.r.UUID()
	}
	return gen.Pick(f.r, mc.IDs())
}

func (f *faultRun) coll_() *model.Coll { return f.S.coll(f.coll) }

// ops builds the operation list for the current state.
func (f *faultRun) ops() []faultOp {
	db := f.h.DB
	r := f.r
	c := f.coll
	sch := f.schemaOf(c)
	mc := f.coll_()
	idxField := "a"
	if l := mc.IndexList(); len(l) > 0 {
		idxField = l[0]
	}
	newIDs := []string{r.UUID(), r.UUID(), r.UUID()}
	docA, docB, docC := r.Doc(sch), r.Doc(sch), r.Doc(sch)
	mk := func(d map[string]any, id string) *document.Document {
		m := model.CopyDoc(d)
		m["_id"] = id
		return model.NewDoc(m)
	}
	exist := f.someID()
	critQ := func() *query.Query { return f.q() }
	sortQ := func() *query.Query {
		return f.q().Sort(query.SortOption{Field: idxField, Direction: -1}).Skip(1).Limit(4)
	}
	sortQ2 := func() *query.Query {
		return query.NewQuery(c).Sort(query.SortOption{Field: "b", Direction: 1}, query.SortOption{Field: "_id", Direction: 1}).Limit(5)
	}
	setP := func(d *document.Document) *document.Document {
		n := d.Copy()
		n.Set("p", int64(77))
		n.Set(idxField, int64(5))
		return n
	}
	importFile := filepath.Join(f.dir, "import.json")
	os.WriteFile(importFile, []byte(fmt.Sprintf(`[{"_id":"%s","a":1,"b":"x"},{"_id":"%s","a":2.5,"arr":[1,2]},{"_id":"%s","n":{"a":3}}]`, r.UUID(), r.UUID(), r.UUID())), 0644)
	exportFile := filepath.Join(f.dir, "export.json")
	ops := []faultOp{
		{"Insert", false, func() error { return db.Insert(c, mk(docA, newIDs[0]), mk(docB, newIDs[1]), mk(docC, newIDs[2])) }},
		{"InsertOne", false, func() error { _, e := db.InsertOne(c, mk(docA, newIDs[0])); return e }},
		{"Save(new)", false, func() error { return db.Save(c, mk(docA, newIDs[0])) }},
		{"Save(existing)", false, func() error { return db.Save(c, mk(docB, exist)) }},
		{"ReplaceById", false, func() error { return db.ReplaceById(c, exist, mk(docC, exist)) }},
		{"UpdateById", false, func() error { return db.UpdateById(c, exist, setP) }},
		{"Update", false, func() error { return db.Update(critQ(), map[string]interface{}{"p": int64(1), idxField: int64(9)}) }},
		{"Update(every indexed field)", false, func() error {
			return db.Update(critQ(), map[string]interface{}{"a": int64(11), "b": int64(12), "n.b": int64(13), "s": "new"})
		}},
		{"UpdateById(every indexed field)", false, func() error {
			return db.UpdateById(c, exist, func(d *document.Document) *document.Document {
				n := d.Copy()
				n.SetAll(map[string]interface{}{"a": int64(21), "b": int64(22), "n.b": int64(23)})
				return n
			})
		}},
		{"Update(sort,skip,limit)", false, func() error { return db.Update(sortQ(), map[string]interface{}{"p": int64(2), idxField: int64(-1)}) }},
		{"UpdateFunc", false, func() error { return db.UpdateFunc(critQ(), setP) }},
		{"UpdateFunc(sort,limit)", false, func() error { return db.UpdateFunc(sortQ2(), setP) }},
		{"UpdateFunc(delete)", false, func() error {
			return db.UpdateFunc(critQ(), func(*document.Document) *document.Document { return nil })
		}},
		{"Delete", false, func() error { return db.Delete(critQ()) }},
		{"Delete(sort,skip,limit)", false, func() error { return db.Delete(sortQ()) }},
		{"Delete(all)", false, func() error { return db.Delete(query.NewQuery(c)) }},
		{"DeleteById", false, func() error { return db.DeleteById(c, exist) }},
		{"CreateCollection", false, func() error { return db.CreateCollection("fresh") }},
		{"DropCollection", false, func() error { return db.DropCollection(c) }},
		{"CreateIndex", false, func() error { return db.CreateIndex(c, "s") }},
		{"CreateIndex(dotted)", false, func() error { return db.CreateIndex(c, "n.b") }},
		{"ImportCollection", false, func() error { return db.ImportCollection("imported", importFile) }},
		{"CreateCollectionByQuery", false, func() error { return db.CreateCollectionByQuery("byquery", critQ()) }},
		{"FindAll(scan)", true, func() error { _, e := db.FindAll(query.NewQuery(c).Where(query.Field("p").Neq(1))); return e }},
		{"FindAll(criteria)", true, func() error { _, e := db.FindAll(critQ()); return e }},
		{"FindAll(sorted)", true, func() error { _, e := db.FindAll(sortQ()); return e }},
		{"FindAll(sorted2)", true, func() error { _, e := db.FindAll(sortQ2()); return e }},
		{"ForEach", true, func() error { return db.ForEach(critQ(), func(*document.Document) bool { return true }) }},
		{"Count", true, func() error { _, e := db.Count(query.NewQuery(c)); return e }},
		{"Count(criteria)", true, func() error { _, e := db.Count(critQ()); return e }},
		{"Exists", true, func() error { _, e := db.Exists(critQ()); return e }},
		{"FindFirst", true, func() error { _, e := db.FindFirst(sortQ2()); return e }},
		{"FindById", true, func() error { _, e := db.FindById(c, exist); return e }},
		{"HasCollection", true, func() error { _, e := db.HasCollection(c); return e }},
		{"ListCollections", true, func() error { _, e := db.ListCollections(); return e }},
		{"HasIndex", true, func() error { _, e := db.HasIndex(c, idxField); return e }},
		{"ListIndexes", true, func() error { _, e := db.ListIndexes(c); return e }},
		{"ExportCollection", true, func() error { return db.ExportCollection(c, exportFile) }},
	}
	if len(mc.Indexes) > 0 {
		ops = append(ops, faultOp{"DropIndex", false, func() error { return db.DropIndex(c, idxField) }})
	}
	return ops
}

func phaseOf(trace []mon.Event, pos int) string {
	// pos is the index (in the trace) of the call that fails
	wrote := false
	for i := 0; i < pos; i++ {
		if trace[i].Kind == mon.KSet || trace[i].Kind == mon.KDelete {
			wrote = true
		}
	}
	switch {
	case trace[pos].Kind == mon.KCommit:
		return "at-commit"
	case trace[pos].Kind == mon.KBegin:
		return "at-begin"
	case wrote:
		return "between-writes"
	}
	return "before-first-write"
}

// apiState checks, through the public API of the SAME handle, that a failed operation left no trace either: counts,
// catalog and contents still equal the model (a cache that was updated before the failing commit shows up here,
// not in the raw store).
func (f *faultRun) apiState(after string) bool {
	s := f.S
	for _, name := range s.m.Names() {
		s.Count(&model.Query{Coll: name})
		s.ListIndexes(name)
		if s.failed {
			return false
		}
	}
	for _, ghost := range []string{"fresh", "imported", "byquery"} {
		if s.coll(ghost) == nil {
			s.HasCollection(ghost)
			s.Count(&model.Query{Coll: ghost})
			s.ListIndexes(ghost)
		}
	}
	s.ListCollections()
	if !s.failed {
		s.CompareCollection(f.coll, "fault:api-state:"+opName(after), after)
	}
	return !s.failed
}

// RunFault enumerates store-call fault positions for every operation on one database shape (C04).
func RunFault(c *core.Ctx) {
	r := c.R
	backends := []string{BBolt, BadgerMem}
	if c.Thorough() {
		backends = append(backends, BadgerDisk)
	}
	backend := backends[c.Case%len(backends)]
	h, err := Open(c, backend, "")
	if err != nil {
		c.Violate("open-error", "opening %s failed: %v", backend, err)
		return
	}
	defer h.Destroy()
	cfg := &SeqCfg{W: weights(nil), SupplyIDs: true, ForceFields: map[string]gen.Profile{"a": {Kind: gen.PSmallInt}, "b": {Kind: gen.PMixedNum, Absent: 10}, "s": {Kind: gen.PString}, "n.b": {Kind: gen.PSmallInt}}}
	d := &seqRun{S: NewS(c, h), cfg: cfg, r: r}
	dirSeq++
	f := &faultRun{seqRun: d, coll: "t", dir: filepath.Join(c.Scratch, fmt.Sprintf("fault%d", dirSeq))}
	os.MkdirAll(f.dir, 0755)
	defer os.RemoveAll(f.dir)

	// database shape
	shape := (c.Case / len(backends)) % 5
	sizes := []int{0, 8, 8, 8, 60}
	if c.Thorough() {
		sizes[4] = 300
	}
	nIdx := []int{1, 0, 1, 3, 2}[shape]
	d.CreateCollection("t", d.newSchema())
	d.CreateCollection("other", d.newSchema())
	if sizes[shape] > 0 {
		d.Insert("t", d.newDocsClean("t", sizes[shape]), false)
	}
	d.Insert("other", d.newDocsClean("other", 3), false)
	for i, fld := range []string{"a", "b", "n.b"} {
		if i < nIdx {
			d.CreateIndex("t", fld)
		}
	}
	if d.failed {
		return
	}
	pivot := int64(r.Range(2, 8))
	f.q = func() *query.Query { return query.NewQuery("t").Where(query.Field("a").GtEq(pivot)) }
	shapeName := fmt.Sprintf("docs%d-idx%d", sizes[shape], nIdx)

	follow := func(after string) bool {
		// later operations on the same handle proceed normally
		id := r.UUID()
		if err := Do(func() error { return h.DB.Insert("other", model.NewDoc(map[string]any{"_id": id, "a": int64(1)})) }); err != nil {
			c.Violate("fault:wedged-write", "after %s a follow-up Insert fails: %v", after, err)
			return false
		}
		if err := Do(func() error { return h.DB.DeleteById("other", id) }); err != nil {
			c.Violate("fault:wedged-write", "after %s a follow-up DeleteById fails: %v", after, err)
			return false
		}
		if err := Do(func() error { _, e := h.DB.FindAll(query.NewQuery("t")); return e }); err != nil {
			c.Violate("fault:wedged-read", "after %s a follow-up FindAll fails: %v", after, err)
			return false
		}
		if n := h.MS.OpenTx(); n != 0 {
			c.Violate("fault:tx-leak", "after %s %d transaction(s) are still open", after, n)
			return false
		}
		return true
	}

	ops := f.ops()
	for _, op := range ops {
		s0, err := h.Snapshot()
		if err != nil {
			c.Violate("snapshot-error", "%v", err)
			return
		}
		// learn the trace on a dry run whose effect is undone by restoring the snapshot
		h.MS.BeginOp(true)
		err0 := Do(op.run)
		st := h.MS.EndOp()
		if pe, ok := IsPanic(err0); ok {
			c.Violate(PanicSig(pe), "%s panicked: %v\n%s", op.name, pe.Val, trim(pe.Stack, 25))
			return
		}
		c.Log("%s (no fault) -> %v   [%d store calls]", op.name, err0, st.Calls)
		if err0 != nil {
			// the operation fails on this shape by itself (e.g. a query on an empty collection cannot fail, but Save(existing) of a missing id does): it must still leave no trace
			if !compareSnap(c, h, s0, op.name+" (failing without a fault: "+err0.Error()+")", "fault:error-left-trace:"+op.name) {
				return
			}
			c.Cell("invalid|%s|%s|%s", op.name, shapeName, backendClass(backend))
			continue
		}
		if !restore(c, h, s0) {
			return
		}
		var faultable []int
		for i, e := range st.Trace {
			if e.Kind.Faultable() {
				faultable = append(faultable, i)
			}
		}
		positions := make([]int, len(faultable))
		for i := range positions {
			positions[i] = i + 1
		}
		exhaustive := true
		maxPos := 90
		if c.Thorough() {
			maxPos = 260
		}
		if len(positions) > maxPos {
			// keep the first and last calls and a seeded sample in between
			exhaustive = false
			keep := map[int]bool{}
			for i := 1; i <= 25; i++ {
				keep[i] = true
				keep[len(positions)+1-i] = true
			}
			for len(keep) < maxPos {
				keep[1+r.Intn(len(positions))] = true
			}
			positions = positions[:0]
			for p := range keep {
				positions = append(positions, p)
			}
			sort.Ints(positions)
		}
		c.Exhaustive("positions:"+op.name+":"+shapeName, exhaustive)
		for _, pos := range positions {
			for _, mode := range []string{"one-shot", "sticky", "conflict-for-ever"} {
				ev := st.Trace[faultable[pos-1]]
				sticky := mode == "sticky"
				flt := mon.Fault{Nth: pos, Sticky: sticky}
				if mode == "conflict-for-ever" {
					// a commit refused with the store's own conflict error, and every later commit of the operation too:
					// an operation may retry, it may not report success in the end
					if ev.Kind != mon.KCommit {
						continue
					}
					flt = mon.Fault{Nth: pos, Err: fmt.Errorf("injected: %w", badger.ErrConflict), EveryCommit: true}
				}
				label := fmt.Sprintf("%s with store call #%d (%s) failing %s", op.name, pos, ev.Kind, mode)
				h.MS.BeginOp(false)
				h.MS.SetFault(flt)
				err := Do(op.run)
				st2 := h.MS.EndOp()
				c.Eval(1)
				c.Count("fault_runs", 1)
				c.Count("fault_positions:"+ev.Kind.String(), 1)
				if pe, ok := IsPanic(err); ok {
					c.Log("%s -> PANIC", label)
					c.Violate(PanicSig(pe), "%s panicked: %v\n%s", label, pe.Val, trim(pe.Stack, 25))
					return
				}
				if st2.Injected == 0 {
					// the operation took another path this time and never made that call
					c.Inconclusive("fault_position_not_reached")
					if !restore(c, h, s0) {
						return
					}
					continue
				}
				if err == nil {
					c.Log("%s -> ok", label)
					c.Violate("fault:swallowed:"+op.name+":"+ev.Kind.String(), "%s: the store failure was swallowed, the operation returned success (shape %s, %s)", label, shapeName, backend)
					return
				}
				if !errors.Is(err, mon.ErrInjected) {
					c.Count("fault_reported_as_other_error", 1)
				}
				if st2.TxBegun != st2.TxFinished {
					c.Violate("fault:tx-leak:"+op.name, "%s: %d transaction(s) left open", label, st2.TxBegun-st2.TxFinished)
					return
				}
				if !compareSnap(c, h, s0, label, "fault:partial-effect:"+op.name+":"+ev.Kind.String()) {
					return
				}
				if ev.Kind == mon.KCommit || pos%7 == 0 {
					if !f.apiState(label) {
						return
					}
				}
				c.Cell("fault|%s|%s|%s|%s|%s", op.name, ev.Kind, phaseOf(st.Trace, faultable[pos-1]), mode, backendClass(backend))
			}
		}
		if !follow(op.name + " fault sweep") {
			return
		}
	}
	c.Sample(map[string]any{"backend": backend, "shape": shapeName, "operations": len(ops)})
}

func compareSnap(c *core.Ctx, h *Handle, s0 []mon.KV, label, sig string) bool {
	s1, err := h.Snapshot()
	if err != nil {
		c.Violate("snapshot-error", "%v", err)
		return false
	}
	if d := mon.DiffSnapshots(s0, s1); d != "" {
		c.Violate(sig, "%s returned an error but the stored content changed: %s", label, d)
		return false
	}
	return true
}

// restore rewrites the raw store to a snapshot (through the inner store, not through clover).
func restore(c *core.Ctx, h *Handle, s0 []mon.KV) bool {
	cur, err := h.Snapshot()
	if err != nil {
		c.Violate("snapshot-error", "%v", err)
		return false
	}
	tx, err := h.Inner.Begin(true)
	if err != nil {
		c.Violate("restore-error", "%v", err)
		return false
	}
	want := map[string][]byte{}
	for _, kv := range s0 {
		want[string(kv.K)] = kv.V
	}
	for _, kv := range cur {
		if _, ok := want[string(kv.K)]; !ok {
			tx.Delete(kv.K)
		}
	}
	for _, kv := range s0 {
		tx.Set(kv.K, kv.V)
	}
	if err := tx.Commit(); err != nil {
		c.Violate("restore-error", "%v", err)
		return false
	}
	return true
}

// RunInvalid: failures caused by invalid input must leave no trace either (C04).
func RunInvalid(c *core.Ctx) {
	r := c.R
	backend := gen.Pick(r, []string{BBolt, BadgerMem, BBolt, BadgerDisk})
	if c.Case%4 == 0 {
		// the oversized-transaction scenarios need badger's shipped options (values below 1 MB count towards the transaction size)
		backend = gen.Pick(r, []string{BadgerShip, BadgerShip, BBolt})
	}
	h, err := Open(c, backend, "")
	if err != nil {
		c.Violate("open-error", "opening %s failed: %v", backend, err)
		return
	}
	defer h.Destroy()
	cfg := &SeqCfg{W: weights(nil), SupplyIDs: true, ForceFields: map[string]gen.Profile{"a": {Kind: gen.PSmallInt}, "b": {Kind: gen.PMixedNum, Absent: 10}, "u": {Kind: gen.PSmallInt}}}
	d := &seqRun{S: NewS(c, h), cfg: cfg, r: r}
	dirSeq++
	dir := filepath.Join(c.Scratch, fmt.Sprintf("invalid%d", dirSeq))
	os.MkdirAll(dir, 0755)
	defer os.RemoveAll(dir)
	sch := d.newSchema()
	d.CreateCollection("t", sch)
	n := gen.Pick(r, []int{3, 9, 25})
	docs := d.newDocsClean("t", n)
	for i := range docs {
		docs[i]["u"] = int64(i) // a unique sort key
	}
	d.Insert("t", docs, false)
	nIdx := r.Intn(4)
	for i, fld := range []string{"a", "u", "b"} {
		if i < nIdx {
			d.CreateIndex("t", fld)
		}
	}
	if d.failed {
		return
	}
	db := h.DB
	mc := d.coll("t")
	ids := mc.IDs()
	sortedByU := make([]string, n) // ids in u order
	for id, doc := range mc.Docs {
		sortedByU[doc["u"].(int64)] = id
	}
	mkdoc := func(id any) *document.Document {
		m := r.Doc(sch)
		if id != nil {
			m["_id"] = id
		}
		return model.NewDoc(m)
	}
	type scen struct {
		name string
		run  func() error
	}
	var scens []scen
	add := func(name string, f func() error) { scens = append(scens, scen{name, f}) }
	// offending document at every class of position of a batch
	for _, pos := range []int{0, 2, 4} {
		pos := pos
		batch := func(bad func() *document.Document) []*document.Document {
			out := make([]*document.Document, 5)
			for i := range out {
				if i == pos {
					out[i] = bad()
				} else {
					out[i] = mkdoc(r.UUID())
				}
			}
			return out
		}
		add(fmt.Sprintf("Insert(duplicate of stored doc at %d)", pos), func() error { return db.Insert("t", batch(func() *document.Document { return mkdoc(ids[0]) })...) })
		add(fmt.Sprintf("Insert(malformed _id at %d)", pos), func() error {
			return db.Insert("t", batch(func() *document.Document { return mkdoc("not-a-uuid") })...)
		})
		add(fmt.Sprintf("Insert(non-string _id at %d)", pos), func() error { return db.Insert("t", batch(func() *document.Document { return mkdoc(int64(7)) })...) })
		add(fmt.Sprintf("Insert(bad _expiresAt at %d)", pos), func() error {
			return db.Insert("t", batch(func() *document.Document { x := mkdoc(r.UUID()); x.Set("_expiresAt", "soon"); return x })...)
		})
		if pos > 0 {
			add(fmt.Sprintf("Insert(duplicate within batch at %d)", pos), func() error {
				b := batch(func() *document.Document { return mkdoc(nil) })
				b[pos].Set("_id", b[pos-1].ObjectId())
				return db.Insert("t", b...)
			})
		}
	}
	// an update producing an invalid document at the first / a middle / the last selected document
	for _, where := range []string{"first", "middle", "last"} {
		for _, kind := range []string{"bad-expires", "bad-id"} {
			for _, sorted := range []bool{false, true} {
				where, kind, sorted := where, kind, sorted
				q := query.NewQuery("t")
				order := ids // a scan visits documents in id order
				if sorted {
					q = q.Sort(query.SortOption{Field: "u", Direction: 1})
					order = sortedByU
				}
				target := order[0]
				switch where {
				case "middle":
					target = order[len(order)/2]
				case "last":
					target = order[len(order)-1]
				}
				upd := func(doc *document.Document) *document.Document {
					nd := doc.Copy()
					nd.Set("p", int64(5))
					nd.Set("a", int64(99))
					if doc.ObjectId() == target {
						if kind == "bad-expires" {
							nd.Set("_expiresAt", int64(3))
						} else {
							nd.Set("_id", "zz")
						}
					}
					return nd
				}
				add(fmt.Sprintf("UpdateFunc(%s at %s selected, sorted=%v)", kind, where, sorted), func() error { return db.UpdateFunc(q, upd) })
				if sorted {
					add(fmt.Sprintf("UpdateFunc(%s at %s selected, sorted, skip/limit)", kind, where), func() error { return db.UpdateFunc(q.Skip(0).Limit(n), upd) })
				}
			}
		}
	}
	if c.Case%4 == 0 {
		// a batch too large for one badger transaction whose LAST document is a duplicate: the whole batch must vanish
		add("Insert(16 x 900 KB, duplicate last)", func() error {
			big := make([]*document.Document, 16)
			for i := range big {
				x := mkdoc(r.UUID())
				x.Set("blob", strings.Repeat("x", 900<<10))
				big[i] = x
			}
			big[15].Set("_id", big[0].ObjectId())
			return db.Insert("t", big...)
		})
		add("UpdateFunc(adds 900 KB to every document, last one becomes invalid)", func() error {
			last := ids[len(ids)-1]
			return db.UpdateFunc(query.NewQuery("t"), func(doc *document.Document) *document.Document {
				nd := doc.Copy()
				nd.Set("blob", strings.Repeat("y", 900<<10))
				if doc.ObjectId() == last {
					nd.Set("_expiresAt", "x")
				}
				return nd
			})
		})
	}
	if c.Case%4 == 1 {
		// more documents in one call than any plausible internal batch size, the LAST one a duplicate
		add("Insert(10500 documents, duplicate last)", func() error {
			big := make([]*document.Document, 10500)
			for i := range big {
				x := document.NewDocument()
				x.Set("_id", r.UUID())
				x.Set("a", int64(i%7))
				big[i] = x
			}
			big[len(big)-1].Set("_id", big[3].ObjectId())
			return db.Insert("t", big...)
		})
		add("Insert(10500 documents, duplicate of a stored one last)", func() error {
			big := make([]*document.Document, 10500)
			for i := range big {
				x := document.NewDocument()
				x.Set("_id", r.UUID())
				big[i] = x
			}
			big[len(big)-1].Set("_id", ids[0])
			return db.Insert("t", big...)
		})
	}
	// an update function that panics on a later document: the caller may recover, the operation must not be half applied
	add("UpdateFunc(updater panics at the middle document)", func() (e error) {
		defer func() {
			if r := recover(); r != nil {
				e = fmt.Errorf("updater panicked: %v", r)
			}
		}()
		mid := ids[len(ids)/2]
		return db.UpdateFunc(query.NewQuery("t"), func(doc *document.Document) *document.Document {
			if doc.ObjectId() == mid {
				panic("user code failed")
			}
			nd := doc.Copy()
			nd.Set("a", int64(77))
			return nd
		})
	})
	// user code that panics inside a read: the panic reaches the caller, who may recover; no transaction stays open
	recovered := func(f func() error) func() error {
		return func() (e error) {
			defer func() {
				if r := recover(); r != nil {
					e = fmt.Errorf("user code panicked: %v", r)
				}
			}()
			return f()
		}
	}
	add("ForEach(consumer panics at the second document)", recovered(func() error {
		k := 0
		return db.ForEach(query.NewQuery("t"), func(*document.Document) bool {
			k++
			if k == 2 {
				panic("user code failed")
			}
			return true
		})
	}))
	add("ForEach(sorted, consumer panics)", recovered(func() error {
		return db.ForEach(query.NewQuery("t").Sort(query.SortOption{Field: "u", Direction: -1}), func(*document.Document) bool { panic("user code failed") })
	}))
	add("FindAll(MatchFunc panics)", recovered(func() error {
		_, e := db.FindAll(query.NewQuery("t").MatchFunc(func(doc *document.Document) bool { panic("user code failed") }))
		return e
	}))
	add("Delete(MatchFunc panics at the second document)", recovered(func() error {
		k := 0
		return db.Delete(query.NewQuery("t").MatchFunc(func(doc *document.Document) bool {
			k++
			if k == 2 {
				panic("user code failed")
			}
			return true
		}))
	}))
	add("UpdateById(updater panics)", recovered(func() error {
		return db.UpdateById("t", ids[0], func(doc *document.Document) *document.Document { panic("user code failed") })
	}))
	add("Update(map with bad _expiresAt)", func() error {
		return db.Update(query.NewQuery("t"), map[string]interface{}{"_expiresAt": "x", "a": int64(1)})
	})
	add("Update(map with bad _id)", func() error {
		return db.Update(query.NewQuery("t").Where(query.Field("u").GtEq(1)), map[string]interface{}{"_id": "x", "a": int64(1)})
	})
	add("UpdateById(bad _expiresAt)", func() error {
		return db.UpdateById("t", ids[0], func(doc *document.Document) *document.Document {
			doc.Set("a", int64(50))
			doc.Set("_expiresAt", true)
			return doc
		})
	})
	add("UpdateById(missing document)", func() error {
		return db.UpdateById("t", r.UUID(), func(doc *document.Document) *document.Document { return doc })
	})
	add("ReplaceById(missing document)", func() error { id := r.UUID(); return db.ReplaceById("t", id, mkdoc(id)) })
	add("ReplaceById(mismatching id)", func() error { return db.ReplaceById("t", ids[0], mkdoc(ids[len(ids)-1])) })
	add("ReplaceById(invalid document)", func() error { x := mkdoc(ids[0]); x.Set("_expiresAt", "never"); return db.ReplaceById("t", ids[0], x) })
	add("Save(invalid document)", func() error { x := mkdoc(ids[0]); x.Set("_expiresAt", "never"); return db.Save("t", x) })
	add("CreateCollection(existing)", func() error { return db.CreateCollection("t") })
	add("CreateIndex(existing)", func() error {
		if nIdx == 0 {
			return db.CreateIndex("nope", "a")
		}
		return db.CreateIndex("t", "a")
	})
	add("DropIndex(missing)", func() error { return db.DropIndex("t", "zz") })
	add("CreateCollectionByQuery(existing target)", func() error { return db.CreateCollectionByQuery("t", query.NewQuery("t")) })
	add("CreateCollectionByQuery(missing source)", func() error { return db.CreateCollectionByQuery("fresh", query.NewQuery("nope")) })
	bad := filepath.Join(dir, "bad.json")
	os.WriteFile(bad, []byte(`[{"_id":"`+r.UUID()+`","a":1},{"_id":"`+ids[0][:8]+`"}]`), 0644)
	add("ImportCollection(ill-formed document)", func() error { return db.ImportCollection("imp", bad) })
	add("ImportCollection(existing target)", func() error { return db.ImportCollection("t", bad) })
	add("ImportCollection(missing file)", func() error { return db.ImportCollection("imp2", filepath.Join(dir, "none.json")) })
	add("ImportCollection(directory)", func() error { return db.ImportCollection("imp3", dir) })
	missing := query.NewQuery("nope")
	missingOps := map[string]func() error{
		"Insert": func() error { return db.Insert("nope", mkdoc(r.UUID())) }, "Save": func() error { return db.Save("nope", mkdoc(nil)) },
		"ReplaceById": func() error { return db.ReplaceById("nope", ids[0], mkdoc(ids[0])) }, "UpdateById": func() error {
			return db.UpdateById("nope", ids[0], func(x *document.Document) *document.Document { return x })
		},
		"Update": func() error { return db.Update(missing, map[string]interface{}{"a": 1}) }, "UpdateFunc": func() error {
			return db.UpdateFunc(missing, func(x *document.Document) *document.Document { return x })
		},
		"Delete": func() error { return db.Delete(missing) }, "DeleteById": func() error { return db.DeleteById("nope", ids[0]) }, "DropCollection": func() error { return db.DropCollection("nope") },
		"CreateIndex": func() error { return db.CreateIndex("nope", "a") }, "DropIndex": func() error { return db.DropIndex("nope", "a") }, "FindAll": func() error { _, e := db.FindAll(missing); return e },
		"Count": func() error { _, e := db.Count(missing); return e }, "Count(criteria)": func() error { _, e := db.Count(missing.Where(query.Field("a").Eq(1))); return e },
		"Exists": func() error { _, e := db.Exists(missing); return e }, "FindFirst": func() error { _, e := db.FindFirst(missing); return e },
		"ForEach": func() error { return db.ForEach(missing, func(*document.Document) bool { return true }) }, "FindById": func() error { _, e := db.FindById("nope", ids[0]); return e },
		"HasIndex": func() error { _, e := db.HasIndex("nope", "a"); return e }, "ListIndexes": func() error { _, e := db.ListIndexes("nope"); return e },
		"ExportCollection": func() error { return db.ExportCollection("nope", filepath.Join(dir, "e.json")) },
	}
	missingNames := make([]string, 0, len(missingOps))
	for name := range missingOps {
		missingNames = append(missingNames, name)
	}
	sort.Strings(missingNames)
	for _, name := range missingNames {
		add(name+"(missing collection)", missingOps[name])
	}
	for _, sc := range scens {
		s0, err := h.Snapshot()
		if err != nil {
			c.Violate("snapshot-error", "%v", err)
			return
		}
		h.MS.BeginOp(false)
		e := Do(sc.run)
		st := h.MS.EndOp()
		c.Eval(1)
		c.Log("%s -> %v", sc.name, e)
		if pe, ok := IsPanic(e); ok {
			c.Violate(PanicSig(pe), "%s panicked: %v\n%s", sc.name, pe.Val, trim(pe.Stack, 25))
			return
		}
		if e == nil {
			c.Violate("invalid:accepted:"+opName(sc.name), "%s returned success on %s (indexes %v)", sc.name, backend, mc.IndexList())
			return
		}
		if st.TxBegun != st.TxFinished {
			c.Violate("invalid:tx-leak:"+opName(sc.name), "%s: %d transaction(s) left open", sc.name, st.TxBegun-st.TxFinished)
			return
		}
		if !compareSnap(c, h, s0, sc.name, "invalid:partial-effect:"+opName(sc.name)) {
			return
		}
		// and nothing of it is visible through the API of the same handle
		d.Count(&model.Query{Coll: "t"})
		d.ListIndexes("t")
		for _, ghost := range []string{"fresh", "imp", "imp2", "imp3", "nope"} {
			d.HasCollection(ghost)
			d.Count(&model.Query{Coll: ghost})
			d.FindAll(&model.Query{Coll: ghost})
		}
		d.ListCollections()
		if d.failed {
			return
		}
		c.Cell("invalid|%s|idx%d|%s", sc.name, nIdx, backendClass(backend))
	}
	// and the handle still works
	d.Audit("invalid-input sweep")
	c.Sample(map[string]any{"backend": backend, "documents": n, "indexes": nIdx, "scenarios": len(scens)})
}

// FindAllFaulted runs one query once cleanly to learn its store calls, then again with the k-th faultable call
// failing, for every k (at most 48 positions, spread). A failing store may make the query fail; it may never make
// it succeed with something else than the answer: no missing, foreign or displaced document, no shifted window.
func (s *S) FindAllFaulted(q *model.Query) {
	mc := s.coll(q.Coll)
	if mc == nil || s.h.MS == nil {
		return
	}
	n := "FindAll(" + q.String() + ")"
	s.h.MS.BeginOp(true)
	_, err := s.h.DB.FindAll(q.ToClover())
	st := s.h.MS.EndOp()
	if err != nil {
		return
	}
	faultable := 0
	for _, e := range st.Trace {
		if e.Kind.Faultable() {
			faultable++
		}
	}
	step := 1
	if faultable > 48 {
		step = faultable/48 + 1
	}
	s.c.Log("%s under store faults (%d faultable calls)", n, faultable)
	for k := 1 + s.r.Intn(step); k <= faultable; k += step {
		sticky := s.r.Bool()
		s.h.MS.BeginOp(false)
		s.h.MS.SetFault(mon.Fault{Nth: k, Sticky: sticky})
		var docs []*document.Document
		e := Do(func() (e error) { docs, e = s.h.DB.FindAll(q.ToClover()); return })
		fst := s.h.MS.EndOp()
		s.c.Eval(1)
		if pe, ok := IsPanic(e); ok {
			s.viol(PanicSig(pe), "%s panicked when store call %d failed: %v\n%s", n, k, pe.Val, trim(pe.Stack, 25))
			return
		}
		if fst.Injected == 0 {
			continue
		}
		if fst.TxBegun != fst.TxFinished {
			s.viol("fault:tx-leak:FindAll", "%s with store call %d failing left %d transaction(s) open", n, k, fst.TxBegun-fst.TxFinished)
			return
		}
		if e != nil {
			s.c.Count("faulted_reads_failed", 1)
			continue
		}
		res := model.FromDocs(docs)
		problem, inc := model.CheckResult(q, mc.Docs, res)
		if inc {
			s.c.Inconclusive("unspecified_comparison")
			return
		}
		if problem != "" {
			s.c.Log("   store call %d of %d failed (sticky=%v); FindAll returned no error; ids=%v", k, faultable, sticky, idsOf(res))
			s.viol("fault:silent-wrong-result:"+problemClass(problem), "%s on %s (indexes %v): faultable store call %d of %d was made to fail; the query reported NO error and returned a wrong answer: %s\n  got %d documents:%s",
				n, s.h.Backend, mc.IndexList(), k, faultable, problem, len(res), renderDocs(res, 12))
			return
		}
		s.c.Count("faulted_reads_right_despite_fault", 1)
	}
}

// RunReadFaults: sorted / windowed / filtered queries over indexed and plain collections with every store call
// failing in turn (C08 and the other read-result properties: a reported success is the exact answer).
func RunReadFaults(c *core.Ctx) {
	r := c.R
	backend := gen.Pick(r, []string{BBolt, BBolt, BadgerMem, BadgerDisk})
	h, err := Open(c, backend, "")
	if err != nil {
		c.Violate("open-error", "opening %s failed: %v", backend, err)
		return
	}
	defer h.Destroy()
	cfg := &SeqCfg{W: weights(nil), SupplyIDs: true, CritPct: 60, SortPct: 80, WinPct: 70,
		ForceFields: map[string]gen.Profile{"a": {Kind: gen.PSmallInt}, "b": {Kind: gen.PMixedNum, Absent: 10}, "u": {Kind: gen.PSmallInt}}}
	d := &seqRun{S: NewS(c, h), cfg: cfg, r: r}
	sch := d.newSchema()
	d.CreateCollection("t", sch)
	n := gen.Pick(r, []int{6, 12, 25})
	docs := d.newDocsClean("t", n)
	for i := range docs {
		docs[i]["u"] = int64(i) // a unique sort key
	}
	d.Insert("t", docs, false)
	nIdx := r.Intn(4)
	for i, fld := range []string{"u", "a", "b"} {
		if i < nIdx {
			d.CreateIndex("t", fld)
		}
	}
	if d.failed {
		return
	}
	dirs := []int{1, -1}
	qs := []*model.Query{
		{Coll: "t", Sorted: true, Sort: []model.SortOpt{{Field: "u", Dir: gen.Pick(r, dirs)}}, HasSkip: true, Skip: r.Intn(n / 2), HasLimit: true, Limit: 1 + r.Intn(n/2)},
		{Coll: "t", Crit: cmpc(model.OpGtEq, "u", int64(r.Intn(n/2))), Sorted: true, Sort: []model.SortOpt{{Field: "u", Dir: gen.Pick(r, dirs)}}, HasSkip: true, Skip: 1, HasLimit: true, Limit: 3},
		{Coll: "t", Crit: cmpc(model.OpLt, "u", int64(n/2+r.Intn(n/2))), HasLimit: true, Limit: n},
		{Coll: "t", Sorted: true, Sort: []model.SortOpt{{Field: "a", Dir: gen.Pick(r, dirs)}, {Field: "u", Dir: 1}}, HasSkip: true, Skip: r.Intn(3)},
	}
	for i := 0; i < 4; i++ {
		qs = append(qs, d.pickQuery("t"))
	}
	for _, q := range qs {
		d.FindAll(q)
		if d.failed {
			return
		}
		d.FindAllFaulted(q)
		if d.failed {
			return
		}
		c.Cell("read-fault|%s|idx%d|sorted=%v|win=%v", backendClass(backend), nIdx, q.Sorted, q.EffSkip() > 0 || q.EffLimit() >= 0)
	}
}

// RunIndexDDLFaults: CreateIndex / DropIndex with one store call failing (every position in turn over the cases).
// Whatever the call returns, the index is then either fully there or fully gone: the catalog, the raw entries
// and the answers of queries through a re-created index say the same (C14, C06).
func RunIndexDDLFaults(c *core.Ctx) {
	r := c.R
	backend := gen.Pick(r, []string{BBolt, BBolt, BadgerMem, BadgerDisk})
	h, err := Open(c, backend, "")
	if err != nil {
		c.Violate("open-error", "opening %s failed: %v", backend, err)
		return
	}
	defer h.Destroy()
	s := NewS(c, h)
	s.r = r
	n := gen.Pick(r, []int{2, 6, 15, 40})
	if c.Case%12 == 7 {
		n = 10500 // more documents than a batched index build or drop is likely to handle in one go
	}
	docs := make([]map[string]any, n)
	for i := range docs {
		docs[i] = map[string]any{"_id": fixedID(i + 1), "x": int64(i % 5), "y": int64(100 - i)}
	}
	for _, name := range []string{"t", "dry"} {
		s.CreateCollection(name, nil)
		s.Insert(name, docs, false)
		s.CreateIndex(name, "y")
	}
	drop := r.Bool()
	if drop {
		s.CreateIndex("t", "x")
		s.CreateIndex("dry", "x")
	}
	if s.failed {
		return
	}
	ddl := func(coll string) error {
		if drop {
			return h.DB.DropIndex(coll, "x")
		}
		return h.DB.CreateIndex(coll, "x")
	}
	opName := map[bool]string{true: "DropIndex", false: "CreateIndex"}[drop]
	// learn the number of faultable store calls on the twin collection
	h.MS.BeginOp(true)
	e0 := Do(func() error { return ddl("dry") })
	st := h.MS.EndOp()
	if e0 != nil {
		c.Violate("index-ddl:"+opName, "%s failed without a fault: %v", opName, e0)
		return
	}
	if drop {
		delete(s.coll("dry").Indexes, "x")
	} else {
		s.coll("dry").Indexes["x"] = true
	}
	faultable := 0
	for _, e := range st.Trace {
		if e.Kind.Faultable() {
			faultable++
		}
	}
	k := 1 + r.Intn(faultable+1)
	if n > 1000 && r.P(70) {
		k = faultable + 1 - r.Intn(3000) // late: whatever the operation does in stages, most stages are behind it
	}
	sticky := r.Bool()
	h.MS.BeginOp(false)
	h.MS.SetFault(mon.Fault{Nth: k, Sticky: sticky})
	e := Do(func() error { return ddl("t") })
	fst := h.MS.EndOp()
	c.Eval(1)
	c.Log("%s(\"t\",\"x\") with faultable store call %d of %d failing (sticky=%v) -> %v", opName, k, faultable, sticky, e)
	if pe, ok := IsPanic(e); ok {
		s.viol(PanicSig(pe), "%s panicked when store call %d failed: %v\n%s", opName, k, pe.Val, trim(pe.Stack, 25))
		return
	}
	if fst.TxBegun != fst.TxFinished {
		s.viol("fault:tx-leak:"+opName, "%s with store call %d failing left %d transaction(s) open", opName, k, fst.TxBegun-fst.TxFinished)
		return
	}
	if e == nil {
		// reported success (the fault hit a call whose failure the operation may ignore, or was not reached): the effect is complete
		if drop {
			delete(s.coll("t").Indexes, "x")
		} else {
			s.coll("t").Indexes["x"] = true
		}
	}
	s.HasIndex("t", "x")
	s.ListIndexes("t")
	s.AuditPhysical(fmt.Sprintf("%s with a failing store call (returned %v)", opName, e))
	if s.failed {
		return
	}
	// the field changes, the index is (re-)created, queries go through it
	s.UpdateById("t", fixedID(1), &Upd{Name: "set", Set: map[string]any{"x": int64(77)}})
	s.Bulk(BulkUpdateMap, &model.Query{Coll: "t", Crit: cmpc(model.OpEq, "x", int64(2))}, &Upd{Name: "set", Set: map[string]any{"x": int64(-2)}})
	if !s.coll("t").Indexes["x"] {
		s.CreateIndex("t", "x")
	}
	s.FindAll(&model.Query{Coll: "t", Sorted: true, Sort: []model.SortOpt{{Field: "x", Dir: 1}}})
	s.Count(&model.Query{Coll: "t", Crit: cmpc(model.OpGtEq, "x", int64(-5))})
	s.FindAll(&model.Query{Coll: "t", Crit: cmpc(model.OpLt, "x", int64(3)), Sorted: true, Sort: []model.SortOpt{{Field: "x", Dir: -1}}})
	s.Audit("index DDL under a store fault, then re-creation")
	if !s.failed {
		pos := "middle"
		if k == 1 {
			pos = "first"
		} else if k >= faultable {
			pos = "last-or-beyond"
		}
		c.Cell("index-ddl-fault|%s|%s|returned-error=%v|%s", opName, pos, e != nil, backendClass(backend))
	}
}
