package drive

import (
	"fmt"
	"time"

	"github.com/ostafen/clover/v2/document"
	"github.com/ostafen/clover/v2/index"
	"github.com/ostafen/clover/v2/query"

	"verif/harness/core"
	"verif/harness/gen"
	"verif/harness/model"
	"verif/harness/mon"
)

// hostileCrits lists criteria shapes that stress the planner's type assertions.
func hostileCrits(r *gen.Rng, f, g string) []*model.Crit {
	lit := func(v any) model.Operand { return model.L(v) }
	eq := func(fl string, v any) *model.Crit { return model.Cmp(model.OpEq, fl, lit(v)) }
	in := func(fl string, vs ...model.Operand) *model.Crit {
		return &model.Crit{Op: model.OpIn, Field: fl, Args: vs}
	}
	contains := func(fl string, vs ...model.Operand) *model.Crit {
		return &model.Crit{Op: model.OpContains, Field: fl, Args: vs}
	}
	like := func(fl, p string) *model.Crit { return &model.Crit{Op: model.OpLike, Field: fl, Pattern: p} }
	fn := &model.Crit{Op: model.OpFunc, Func: &model.NamedFunc{Name: "has_f", F: func(get func(string) any, has func(string) bool) bool { return has("a") }}}
	n := int64(r.Range(0, 6))
	cs := []*model.Crit{
		{Op: model.OpNotExists, Field: f},
		{Op: model.OpExists, Field: f},
		model.Not(&model.Crit{Op: model.OpExists, Field: f}),
		model.Not(in(f, lit(n), lit(int64(2)))),
		model.Not(like("s", "^a")),
		model.Not(like(f, "[")),
		like(f, "("),
		model.Not(contains("arr", lit(n))),
		model.Not(fn),
		fn,
		model.Not(model.Not(model.Not(eq(f, n)))),
		model.Not(model.Not(in(f, lit(n)))),
		model.Not(model.Not(model.Not(model.Not(model.Cmp(model.OpGt, f, lit(n)))))),
		model.And(&model.Crit{Op: model.OpNotExists, Field: f}, model.Cmp(model.OpGt, f, lit(n))),
		model.And(model.Cmp(model.OpGt, f, lit(n)), &model.Crit{Op: model.OpNotExists, Field: g}),
		model.Or(model.Not(in(f, lit(n))), model.Cmp(model.OpLt, f, lit(n))),
		model.Or(model.Cmp(model.OpLt, f, lit(n)), model.Not(like("s", "a"))),
		model.And(model.Not(contains("arr", lit(n))), eq(f, n)),
		model.Cmp(model.OpEq, f, model.RefF(g)),
		model.Cmp(model.OpGt, f, model.RefD(g)),
		model.Cmp(model.OpLtEq, f, model.RefF("nope")),
		model.Not(model.Cmp(model.OpLt, f, model.RefF(g))),
		in(f, model.RefF(g), lit(n)),
		in(f, model.RefD(g)),
		in(f),
		contains("arr", model.RefF(f)),
		contains("arr"),
		contains(f, lit(n)),
		eq(f, nil),
		model.Cmp(model.OpNeq, f, lit(nil)),
		model.Cmp(model.OpGt, f, lit(nil)),
		model.Cmp(model.OpGtEq, f, lit(nil)),
		model.Cmp(model.OpLt, f, lit(nil)),
		model.Cmp(model.OpLtEq, f, lit(nil)),
		model.And(model.Cmp(model.OpLtEq, f, lit(n)), model.Cmp(model.OpGtEq, f, lit(nil))),
		eq(f, map[string]any{"a": n}),
		eq(f, []any{}),
		model.Cmp(model.OpGt, f, lit([]any{n, "x"})),
		model.Cmp(model.OpLt, f, lit(true)),
		model.Cmp(model.OpGt, f, lit(time.Unix(1_600_000_000, 0).UTC())),
		model.Cmp(model.OpGt, f, lit("")),
		eq("", n),
		eq("a..b", n),
		&model.Crit{Op: model.OpExists, Field: "a."},
		&model.Crit{Op: model.OpNotExists, Field: ".a"},
		eq(".", n),
		model.And(model.Cmp(model.OpGt, f, lit(n)), model.Cmp(model.OpLt, f, lit(n))),
		model.And(model.Cmp(model.OpGtEq, f, lit(n)), model.Cmp(model.OpLtEq, f, lit(n))),
		model.And(model.Cmp(model.OpGt, f, lit(n+3)), model.Cmp(model.OpLt, f, lit(n))),
		model.And(eq(f, n), eq(f, n+1)),
		model.And(eq(f, n), model.Cmp(model.OpGt, f, lit("x"))),
		model.And(model.Cmp(model.OpGt, f, lit(n)), in(f, lit(n+1), lit(n+2))),
		model.And(eq(f, n), &model.Crit{Op: model.OpExists, Field: f}),
		model.And(model.Cmp(model.OpLt, f, lit(n+5)), model.Cmp(model.OpLt, f, model.RefF(g))),
		model.And(model.Cmp(model.OpGtEq, f, lit(n)), model.Cmp(model.OpGt, f, lit(nil))),
		model.And(model.Cmp(model.OpLtEq, f, lit(n+3)), like(f, "a")),
		model.Or(eq(f, n), eq(g, n)),
		model.And(eq(f, n), eq(g, n)),
		model.Cmp(model.OpNeq, f, lit(n)),
		model.Not(model.Cmp(model.OpNeq, f, lit(n))),
	}
	// a deep chain
	deep := eq(f, n)
	for i := 0; i < 14; i++ {
		switch i % 3 {
		case 0:
			deep = model.Not(deep)
		case 1:
			deep = model.And(deep, model.Cmp(model.OpGtEq, g, lit(int64(i%5))))
		default:
			deep = model.Or(deep, &model.Crit{Op: model.OpNotExists, Field: f})
		}
	}
	cs = append(cs, deep)
	return cs
}

// RunSweep is the hostile-call sweep of C20: every public operation is called
// in states and with criteria chosen to hit type assertions and nil paths; no
// call may panic, kill the process or block. Results are compared with the
// model as well (a wrong answer is reported, too).
func RunSweep(c *core.Ctx) {
	r := c.R
	backend := gen.Pick(r, []string{BBolt, BadgerMem, BBoltRaw, BadgerDisk, BBolt, BadgerMem})
	h, err := Open(c, backend, "")
	if err != nil {
		c.Violate("open-error", "opening %s failed: %v", backend, err)
		return
	}
	defer h.Destroy()
	s := NewS(c, h)
	sch := r.SchemaWith(map[string]gen.Profile{"a": {Kind: gen.PSmallInt, Absent: 15, Nil: 10}, "b": {Kind: gen.PMixedNum, Absent: 10}, "arr": {Kind: gen.PArray}, "s": {Kind: gen.PString, Absent: 10}})
	d := &seqRun{S: s, cfg: &SeqCfg{W: weights(nil)}, r: r}
	idxCfg := c.Case % 6
	s.CreateCollection("p", sch)
	s.CreateCollection("gone", sch)
	n := gen.Pick(r, []int{0, 1, 14, 30})
	if n > 0 {
		s.Insert("p", d.newDocsClean("p", n), false)
		s.Insert("gone", d.newDocsClean("gone", 3), false)
	}
	idxName := "none"
	switch idxCfg {
	case 1:
		s.CreateIndex("p", "b")
		idxName = "unrelated"
	case 2:
		s.CreateIndex("p", "a")
		idxName = "on-field"
	case 3:
		s.CreateIndex("p", "a")
		s.CreateIndex("p", "b")
		idxName = "both"
	case 4:
		s.CreateIndex("p", "arr")
		s.CreateIndex("p", "s")
		idxName = "arr+s"
	case 5:
		s.CreateIndex("p", "a")
		s.CreateIndex("p", "a.x")
		s.CreateIndex("p", "ab")
		idxName = "siblings"
	}
	s.CreateIndex("gone", "a")
	s.DropCollection("gone")
	if s.failed {
		return
	}
	windows := []func(q *model.Query){
		func(q *model.Query) {},
		func(q *model.Query) { q.HasLimit, q.Limit = true, 0 },
		func(q *model.Query) { q.HasLimit, q.Limit = true, 1 },
		func(q *model.Query) { q.HasSkip, q.Skip = true, 2 },
		func(q *model.Query) { q.HasSkip, q.Skip, q.HasLimit, q.Limit = true, -3, true, -1 },
		func(q *model.Query) { q.Sorted = true },
		func(q *model.Query) { q.Sorted, q.Sort = true, []model.SortOpt{{Field: "a", Dir: -1}} },
		func(q *model.Query) {
			q.Sorted, q.Sort = true, []model.SortOpt{{Field: "a", Dir: 1}}
			q.HasLimit, q.Limit = true, 3
		},
		func(q *model.Query) {
			q.Sorted, q.Sort = true, []model.SortOpt{{Field: "nope", Dir: 0}, {Field: "arr", Dir: -1}}
		},
		func(q *model.Query) { q.Sorted, q.Sort = true, []model.SortOpt{{Field: "", Dir: 1}} },
		func(q *model.Query) {
			q.Sorted, q.Sort = true, []model.SortOpt{{Field: "b", Dir: -1}}
			q.HasSkip, q.Skip = true, 1
		},
	}
	crits := hostileCrits(r, "a", "b")
	for ci, cr := range crits {
		for _, coll := range []string{"p", "gone", "never"} {
			if s.failed {
				return
			}
			w := windows[(ci+c.Case)%len(windows)]
			q := &model.Query{Coll: coll, Crit: cr}
			w(q)
			if coll == "p" {
				s.Derived(q)
				if s.failed {
					return
				}
				s.FindAll(q)
			} else {
				s.FindAll(q)
				s.Count(q)
			}
			c.Cell("sweep|%s|coll=%s|idx=%s|%s", cr.Shape(), coll, idxName, backendClass(backend))
		}
	}
	// writes with hostile criteria (on copies so that the data survives)
	for k := 0; k < 10 && !s.failed; k++ {
		cr := gen.Pick(r, crits)
		coll := gen.Pick(r, []string{"p", "p", "gone", "never"})
		q := &model.Query{Coll: coll, Crit: cr}
		gen.Pick(r, windows)(q)
		switch r.Intn(3) {
		case 0:
			s.Bulk(BulkUpdateMap, q, &Upd{Name: "set", Set: map[string]any{"a": int64(r.Intn(5))}})
		case 1:
			s.Bulk(BulkUpdateFunc, q, &Upd{Name: "set", InPlace: r.Bool(), Set: map[string]any{"b": int64(r.Intn(5))}})
		default:
			if r.P(30) {
				s.Bulk(BulkDelete, q, nil)
			}
		}
	}
	// point operations on present / missing documents and collections
	for _, coll := range []string{"p", "gone", "never"} {
		if s.failed {
			return
		}
		id := d.pickID("p")
		s.FindById(coll, id)
		s.FindById(coll, "")
		s.FindById(coll, "not-a-uuid")
		s.DeleteById(coll, r.UUID())
		s.DeleteById(coll, "")
		s.UpdateById(coll, r.UUID(), &Upd{Name: "set", Set: map[string]any{"a": int64(1)}})
		s.ReplaceById(coll, id, map[string]any{"_id": id, "a": int64(3)})
		s.ReplaceById(coll, id, map[string]any{"a": int64(3)})
		s.Save(coll, map[string]any{"a": int64(3)})
		s.Insert(coll, nil, false)
		s.HasIndex(coll, "a")
		s.HasIndex(coll, "")
		s.ListIndexes(coll)
		s.DropIndex(coll, "zz")
		s.DropIndex(coll, "")
		s.HasCollection(coll)
		s.CreateCollectionByQuery("copy-"+coll, &model.Query{Coll: coll, Crit: crits[r.Intn(len(crits))]})
	}
	if !s.failed {
		s.CreateIndex("p", "")
		s.CreateIndex("p", "a.b.c")
		s.Audit("sweep")
	}
	if !s.failed {
		sweepDocumentAPI(c)
		sweepIndexAPI(c)
	}
	if !s.failed && c.NumViolations() == 0 {
		d.afterClose()
		c.Sample(map[string]any{"backend": backend, "index_config": idxName, "documents": n, "criteria_shapes": len(crits)})
	}
}

// sweepDocumentAPI calls the document and query builder APIs with awkward but well-typed arguments.
func sweepDocumentAPI(c *core.Ctx) {
	paths := []string{"", ".", "a", "a.", ".a", "a..b", "a.b.c", "_id", "_expiresAt", "é", "a b"}
	vals := []any{nil, int64(1), "s", map[string]any{}, []any{}, time.Unix(5, 0).UTC(), map[string]any{"a": map[string]any{"b": []any{nil}}}, uint8(3), (*int)(nil), &struct{ A int }{1}, []string{"x"}, [2]bool{true, false}}
	err := Do(func() error {
		for _, p := range paths {
			for _, v := range vals {
				doc := document.NewDocument()
				doc.Set(p, v)
				doc.Set("x.y", v)
				doc.Set(p, v)
				_ = doc.Get(p)
				_ = doc.Has(p)
				_ = doc.Copy().ToMap()
				_ = doc.AsMap()
				_ = doc.Fields(true)
				_ = doc.Fields(false)
				_ = doc.ObjectId()
				_ = doc.ExpiresAt()
				_ = doc.TTL()
				_ = document.Validate(doc)
				doc.SetAll(map[string]interface{}{p: v, "q": v})
				doc.SetExpiresAt(time.Unix(10, 0))
				_ = doc.TTL()
				var m map[string]interface{}
				_ = doc.Unmarshal(&m)
				var st struct {
					A int
					X map[string]interface{}
				}
				_ = doc.Unmarshal(&st)
				_ = doc.Unmarshal(st) // not a pointer: an error, not a panic
				if b, err := document.Encode(doc); err == nil {
					_, _ = document.Decode(b)
				}
				core.Tick()
			}
		}
		_, _ = document.Decode([]byte{})
		_, _ = document.Decode([]byte{0xc1, 0x00, 0xff})
		_, _ = document.Decode([]byte("{\"json\":1}"))
		for _, v := range []any{int(1), "s", []int{1}, map[string]int{"a": 1}, struct{ A int }{1}, &struct{ B string }{"x"}, map[int]int{1: 1}, time.Now()} {
			_ = document.NewDocumentOf(v)
		}
		// query builder
		q := query.NewQuery("")
		q = q.Skip(-5).Limit(-9).Sort(query.SortOption{Field: "", Direction: 0}).Sort().Where(query.Field("").Exists()).MatchFunc(func(*document.Document) bool { return false })
		_ = q.Criteria().Not().And(query.Field("a").In()).Or(query.Field("b").Contains()).Not().Not()
		_ = q.Collection()
		_ = q.GetLimit()
		_ = q.GetSkip()
		_ = q.SortOptions()
		// many DISTINCT valid patterns in one process (whatever an implementation caches must cope with that)
		sdoc := document.NewDocument()
		sdoc.Set("s", "p77")
		hits := 0
		for i := 0; i < 2200; i++ {
			if query.Field("s").Like(fmt.Sprintf("^p%d$", i+c.Case*10000)).Satisfy(sdoc) {
				hits++
			}
			if query.Field("s").Like(fmt.Sprintf("^p%d$", i+c.Case*10000)).Not().Satisfy(sdoc) == (i+c.Case*10000 == 77) {
				return fmt.Errorf("Like/Not(Like) inconsistent for pattern %d", i)
			}
		}
		if want := map[bool]int{true: 1, false: 0}[c.Case == 0]; hits != want {
			return fmt.Errorf("%d of 2200 distinct Like patterns matched, want %d", hits, want)
		}
		// criteria evaluated directly on awkward documents
		for _, v := range vals {
			doc := document.NewDocument()
			doc.Set("a", v)
			for _, cr := range hostileCrits(c.R, "a", "b") {
				_ = cr.ToClover().Satisfy(doc)
			}
		}
		return nil
	})
	c.Eval(len(paths) * len(vals))
	if pe, ok := IsPanic(err); ok {
		c.Violate(PanicSig(pe), "document/query API sweep panicked: %v\n%s", pe.Val, trim(pe.Stack, 30))
		return
	}
	if err != nil {
		c.Violate("sweep:like-patterns", "%v", err)
		return
	}
	c.Cell("sweep|document-api")
}

// sweepIndexAPI calls the index API directly on an in-memory transaction.
func sweepIndexAPI(c *core.Ctx) {
	st := mon.NewMemStore()
	tx, _ := st.Begin(true)
	defer tx.Rollback()
	vals := []any{nil, int64(1), uint64(2), 2.5, "s", "", true, []any{}, []any{int64(1), "x"}, map[string]any{}, map[string]any{"a": nil}, time.Unix(5, 0).UTC()}
	err := Do(func() error {
		for _, field := range []string{"f", "", "a.b", "é"} {
			idx := index.CreateIndex("c", field, index.SingleField, tx).(index.RangeIndex)
			_ = idx.Drop() // empty
			_ = idx.Iterate(false, func(string) error { return nil })
			for i, v := range vals {
				id := fmt.Sprintf("00000000-0000-4000-8000-%012d", i)
				_ = idx.Add(id, v, time.Duration(-1))
				_ = idx.Add(id, v, time.Duration(0))
				_ = idx.Remove(id, v)
				_ = idx.Remove(id, v) // absent
				_ = idx.Add(id, v, time.Second)
			}
			for _, a := range vals {
				for _, b := range vals {
					for _, inc := range []bool{true, false} {
						rg := &index.Range{Start: a, End: b, StartIncluded: inc, EndIncluded: !inc}
						_ = rg.IsEmpty()
						_ = rg.IsNil()
						_ = rg.Intersect(&index.Range{Start: b, End: a, StartIncluded: !inc, EndIncluded: inc})
						_ = idx.IterateRange(rg, inc, func(string) error { return nil })
						core.Tick()
					}
				}
			}
			_ = idx.Iterate(true, func(string) error { return nil })
			_ = (&index.RangeIndexQuery{Range: nil, Idx: idx}).Run(func(string) error { return nil })
			_ = idx.Type()
			_ = idx.Collection()
			_ = idx.Field()
			_ = idx.Drop()
		}
		return nil
	})
	c.Eval(len(vals) * len(vals) * 8)
	if pe, ok := IsPanic(err); ok {
		c.Violate(PanicSig(pe), "index API sweep panicked: %v\n%s", pe.Val, trim(pe.Stack, 30))
		return
	}
	c.Cell("sweep|index-api")
}
