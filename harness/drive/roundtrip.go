package drive

import (
	"fmt"
	"strings"
	"time"

	"verif/harness/core"
	"verif/harness/gen"
	"verif/harness/model"
)

// shapes walks a document and reports <path shape> -> leaf type for coverage.
func shapes(v any, path string, out map[string]bool) {
	switch x := v.(type) {
	case map[string]any:
		if len(x) == 0 {
			out[path+">emptyobj"] = true
		}
		for _, e := range x {
			shapes(e, path+">obj", out)
		}
	case []any:
		if len(x) == 0 {
			out[path+">emptyarr"] = true
		}
		for _, e := range x {
			shapes(e, path+">arr", out)
		}
	default:
		t := typeClass(v)
		if tm, ok := v.(time.Time); ok {
			if _, off := tm.Zone(); off != 0 {
				t = "time+zone"
			}
		}
		if len(path) > 24 {
			path = path[len(path)-24:]
		}
		out[path+">"+t] = true
	}
}

// RunRoundTrip decides C11: documents written through every write path read
// back deeply equal (Go types included), before and after reopening.
func RunRoundTrip(c *core.Ctx) {
	r := c.R
	backend := gen.Pick(r, []string{BBolt, BBoltRaw, BadgerDisk, BadgerMem, BBolt})
	if c.Case%16 == 5 {
		backend = gen.Pick(r, []string{BBolt, BadgerShip, BadgerDisk, BadgerShip}) // shipped options: values beyond 1 MB go to the value log
	}
	h, err := Open(c, backend, "")
	if err != nil {
		c.Violate("open-error", "opening %s failed: %v", backend, err)
		return
	}
	defer h.Destroy()
	s := NewS(c, h)
	s.CreateCollection("rt", nil)
	n := r.Range(4, 14)
	docs := make([]map[string]any, n)
	for i := range docs {
		docs[i] = r.RichDoc()
		if r.Bool() {
			docs[i]["_id"] = r.UUIDMaybeUpper()
		}
	}
	// three documents carry values that a later update replaces by "the same" value of another kind
	docs[0]["num"], docs[1]["num"], docs[2]["num"] = int64(7), float64(3), uint64(12)
	docs[0]["str8"], docs[1]["str8"] = "ab\xff", "ab\xfe\xfd"
	docs[2]["nn"] = map[string]any{"k": []any{int64(1), float64(2)}}
	// the expiration is a time like any other: it keeps its zone offset (instants beyond the year 2150 never expire during a run)
	zoned := func() time.Time {
		off := r.Range(1, 14*60) * 60
		if r.Bool() && off != 60 {
			off = -off
		}
		return time.Unix(int64(5_700_000_000+r.Intn(2_000_000_000)), int64(r.Intn(1_000_000_000))).In(time.FixedZone("", off))
	}
	for i := range docs {
		if i%3 == 1 {
			docs[i]["_expiresAt"] = zoned()
		}
	}
	// one document holds a long unsorted array: a query that looks into it must neither return nor leave it reordered
	long := make([]any, r.Range(48, 90))
	for i := range long {
		long[i] = gen.Pick(r, []any{int64(r.Range(-50, 50)), float64(r.Range(-50, 50)) / 4, r.Str(), r.Bool(), nil, uint64(r.Intn(9))})
	}
	long[0], long[1], long[2], long[3] = "zz-last", int64(900), int64(-900), float64(0.5)
	docs[3]["longarr"] = long
	ids := s.Insert("rt", docs, false)
	if s.failed || ids == nil {
		return
	}
	{
		crit := &model.Crit{Op: model.OpContains, Field: "longarr", Args: []model.Operand{model.L(int64(900)), model.L("zz-last"), model.L(int64(-900)), model.L(float64(0.5))}}
		q := &model.Query{Coll: "rt", Crit: crit}
		if res := s.FindAll(q); !s.failed && len(res) == 0 {
			s.viol("roundtrip:contains-long-array", "Contains of four members of a %d-element array matched nothing", len(long))
		}
		s.FindById("rt", ids[3])
		if c.Case%2 == 0 {
			s.Bulk(BulkUpdateMap, q, &Upd{Name: "set", Set: map[string]any{"touched": int64(1), "_expiresAt": zoned()}})
		} else {
			s.Bulk(BulkUpdateFunc, q, &Upd{Name: "set", Set: map[string]any{"touched": int64(2)}})
		}
		s.FindById("rt", ids[3])
		if s.failed {
			return
		}
		c.Cell("rt|long-array-contains|%s", backendClass(backend))
	}
	// the updated document differs from the stored one in the KIND of a number only (7 as float64, 3 as int64, 12
	// as int64), or in one byte that is not valid UTF-8: it is a different value and must be what is read back
	for k, set := range []map[string]any{
		{"num": float64(7), "str8": "ab\xfe"},
		{"num": int64(3), "str8": "ab\xfe\xfc"},
		{"num": int64(12), "nn": map[string]any{"k": []any{float64(1), int64(2)}}},
	} {
		q := &model.Query{Coll: "rt", Crit: model.Cmp(model.OpEq, "_id", model.L(ids[k]))}
		kind := BulkUpdateMap
		if (c.Case+k)%2 == 0 {
			kind = BulkUpdateFunc
		}
		s.Bulk(kind, q, &Upd{Name: "same_value_other_kind", Set: set})
	}
	if c.Case%16 == 5 && !s.failed {
		// values beyond 1 MiB (badger keeps them in its value log; an encoder may treat them apart) written
		// together with small documents in one transaction, then rewritten together by one bulk update
		s.CreateCollection("rtbig", nil)
		big := []map[string]any{
			{"_id": r.UUID(), "k": int64(1), "blob": strings.Repeat("B", 1200<<10)},
			{"_id": r.UUID(), "k": int64(2), "s": "small"},
			{"_id": r.UUID(), "k": int64(3), "parts": []any{strings.Repeat("p", 750<<10), strings.Repeat("q", 750<<10), strings.Repeat("r", 750<<10)}},
			{"_id": r.UUID(), "k": int64(4), "s": "small too", "t": time.Unix(1_600_000_000, 7).UTC()},
		}
		s.Insert("rtbig", big, false)
		s.CompareCollection("rtbig", "roundtrip:large-values", "a batch of 1.2 MiB, small, 2.2 MiB, small documents")
		s.Bulk(BulkUpdateMap, &model.Query{Coll: "rtbig"}, &Upd{Name: "set", Set: map[string]any{"v": int64(9)}})
		s.CompareCollection("rtbig", "roundtrip:large-values", "bulk update of documents beyond 1 MiB next to small ones")
		if s.failed {
			return
		}
		c.Cell("rt|large-values|%s", backendClass(backend))
	}
	// other write paths
	for k := 0; k < 6 && !s.failed; k++ {
		id := gen.Pick(r, ids)
		switch r.Intn(5) {
		case 0:
			d := r.RichDoc()
			d["_id"] = id
			s.ReplaceById("rt", id, d)
		case 1:
			d := r.RichDoc()
			d["_id"] = id
			if r.Bool() {
				d["_expiresAt"] = zoned()
			}
			s.Save("rt", d)
		case 2:
			s.UpdateById("rt", id, &Upd{Name: "set_rich", InPlace: r.Bool(), Set: map[string]any{gen.Pick(r, []string{"a", "z", "obj.k", "n.a.b"}): r.Rich(3)}})
		case 3:
			q := &model.Query{Coll: "rt", Crit: model.Cmp(model.OpEq, "_id", model.L(id))}
			s.Bulk(BulkUpdateMap, q, &Upd{Name: "set_rich", Set: map[string]any{gen.Pick(r, []string{"b", "y", "obj.j"}): r.Rich(3)}})
		case 4:
			d := r.RichDoc()
			s.Save("rt", d) // insert through Save
		}
	}
	// values handed over as other Go types, also INSIDE a []interface{}: what is stored is their normal form
	if !s.failed {
		id := gen.Pick(r, ids)
		goTyped := []interface{}{int(1), int32(-2), uint8(3), float32(1.5), []string{"x", "y"}, map[string]int16{"k": 7}, []interface{}{int8(4), uint16(5)}}
		canon := []any{int64(1), int64(-2), uint64(3), float64(1.5), []any{"x", "y"}, map[string]any{"k": int64(7)}, []any{int64(4), uint64(5)}}
		s.UpdateById("rt", id, &Upd{Name: "set_go_typed", InPlace: r.Bool(), Set: map[string]any{"gt": canon, "gn.x": canon[:3]}, Raw: map[string]any{"gt": goTyped, "gn.x": goTyped[:3]}})
		id2 := gen.Pick(r, ids)
		q := &model.Query{Coll: "rt", Crit: model.Cmp(model.OpEq, "_id", model.L(id2))}
		s.Bulk(BulkUpdateMap, q, &Upd{Name: "set_go_typed", Set: map[string]any{"gu": canon}, Raw: map[string]any{"gu": goTyped}})
	}
	verify := func(phase string) {
		mc := s.coll("rt")
		for _, id := range mc.IDs() {
			if s.failed {
				return
			}
			s.FindById("rt", id)
		}
		if s.failed {
			return
		}
		if !s.CompareCollection("rt", "roundtrip:findall:"+phase, "round trip "+phase) {
			return
		}
		sh := map[string]bool{}
		for _, d := range mc.Docs {
			shapes(d, "", sh)
		}
		for k := range sh {
			c.Cell("rt|%s|%s|%s", k, backendClass(backend), phase)
		}
	}
	verify("before-reopen")
	if s.failed {
		return
	}
	if h.Persistent() {
		if err := h.Reopen(c); err != nil {
			s.viol("reopen:error", "close/reopen failed: %v", err)
			return
		}
		c.Log("Close(); Open()")
		verify("after-reopen")
	}
	if !s.failed {
		c.Sample(map[string]any{"backend": backend, "documents": len(s.coll("rt").Docs), "one_document": fmt.Sprint(model.Render(s.coll("rt").DocList()[0]))})
	}
}
