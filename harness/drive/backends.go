package drive

import (
	"fmt"

	"verif/harness/core"
	"verif/harness/gen"
)

var seqBackends = &SeqCfg{
	Focus: "backends", Ops: [2]int{30, 80}, NColls: [2]int{1, 3}, InitDocs: []int{0, 3, 10, 30},
	AuditEvery: [2]int{20, 40}, Queries: 1, SupplyIDs: true, AfterClose: true, SortPct: 50,
	W: weights(map[string]int{"Reopen": 0, "Derived": 3, "FailedCommit": 0}),
}

// RunBackends replays one seeded history on bbolt, badger on disk (shipped
// default options) and badger in memory, and compares the transcripts line by
// line: every outcome class, every returned id sequence, count and catalog
// listing must be identical (C15).
func RunBackends(c *core.Ctx) {
	seed := c.R.U64()
	backends := []string{BBolt, BadgerShip, BadgerMem}
	if c.R.P(30) {
		backends = []string{BBoltRaw, BadgerDisk, BadgerMem}
	}
	var trs [][]string
	for _, b := range backends {
		c.Hist = nil
		tr := runSeqOn(c, seqBackends, b, gen.New(seed), true)
		if c.NumViolations() > 0 {
			return
		}
		if c.CapacityHit {
			return // one store refused an operation for its size: the transcripts are not comparable (inconclusive)
		}
		trs = append(trs, tr)
	}
	for i := 1; i < len(trs); i++ {
		a, b := trs[0], trs[i]
		n := len(a)
		if len(b) < n {
			n = len(b)
		}
		for k := 0; k < n; k++ {
			c.Eval(1)
			if a[k] != b[k] {
				ctx := ""
				for j := max(0, k-6); j < k; j++ {
					ctx += "\n    " + a[j]
				}
				c.Violate("backend-divergence:"+opName(lastOpLine(a, k)), "backends diverge at transcript line %d after:%s\n  %s: %s\n  %s: %s", k, ctx, backends[0], a[k], backends[i], b[k])
				return
			}
		}
		if len(a) != len(b) {
			c.Violate("backend-divergence:length", "transcripts differ in length: %s has %d lines, %s has %d", backends[0], len(a), backends[i], len(b))
			return
		}
	}
	if len(trs[0]) > 20 {
		c.Cell("lockstep|%v|lines%s", backends, sizeClass(len(trs[0])))
	}
	c.Sample(map[string]any{"backends": backends, "transcript_lines": len(trs[0]), "transcript_head": head(trs[0], 10)})
}

func lastOpLine(tr []string, k int) string {
	for j := k; j >= 0; j-- {
		if len(tr[j]) > 0 && tr[j][0] != ' ' {
			return tr[j]
		}
	}
	return fmt.Sprint(k)
}
