package drive

import (
	"bufio"
	"fmt"
	"os"
	"os/exec"
	"path/filepath"
	"strconv"
	"strings"
	"syscall"
	"time"

	clover "github.com/ostafen/clover/v2"
	"github.com/ostafen/clover/v2/document"
	"github.com/ostafen/clover/v2/query"

	"verif/harness/core"
	"verif/harness/gen"
	"verif/harness/model"
	"verif/harness/mon"
)

// crashOp is a write operation that is fully determined by the seed: parent and
// child both regenerate the same list, so nothing has to be serialised.
type crashOp struct {
	Kind  string
	Coll  string
	Coll2 string
	Docs  []map[string]any
	ID    string
	Field string
	Val   int64
	Pivot int64
	Sort  bool
	File  string // file content for ImportCollection
}

func (o crashOp) String() string {
	if len(o.Coll) > 48 {
		o.Coll = fmt.Sprintf("%s...<%d bytes>", o.Coll[:8], len(o.Coll))
	}
	switch o.Kind {
	case "Insert", "InsertBig":
		return fmt.Sprintf("%s(%q, %d docs)", o.Kind, o.Coll, len(o.Docs))
	case "UpdateById", "DeleteById", "ReplaceById":
		return fmt.Sprintf("%s(%q, %s, %s=%d)", o.Kind, o.Coll, short(o.ID), o.Field, o.Val)
	case "Update", "UpdateFunc", "Delete", "UpdatePanic":
		return fmt.Sprintf("%s(%q where a>=%d, %s=%d, sorted=%v)", o.Kind, o.Coll, o.Pivot, o.Field, o.Val, o.Sort)
	case "CreateIndex", "DropIndex":
		return fmt.Sprintf("%s(%q,%q)", o.Kind, o.Coll, o.Field)
	case "CreateCollectionByQuery":
		return fmt.Sprintf("CreateCollectionByQuery(%q from %q where a>=%d)", o.Coll2, o.Coll, o.Pivot)
	case "ImportCollection", "ImportDup":
		return fmt.Sprintf("%s(%q, %d docs)", o.Kind, o.Coll, len(o.Docs))
	}
	return fmt.Sprintf("%s(%q)", o.Kind, o.Coll)
}

func crashDoc(r *gen.Rng, pad int) map[string]any {
	d := map[string]any{"_id": r.UUID(), "a": int64(r.Range(0, 9)), "b": int64(r.Range(0, 3)), "s": gen.Pick(r, []string{"x", "y", "zz", ""})}
	if r.P(30) {
		d["arr"] = []any{int64(r.Intn(4)), "q"}
	}
	if r.P(30) {
		d["n"] = map[string]any{"a": int64(r.Intn(5))}
	}
	if pad > 0 {
		d["pad"] = strings.Repeat("p", r.Intn(pad))
	}
	return d
}

// applyCrashOp is the model of a crash-history operation: new state and outcome class.
func applyCrashOp(m *model.DB, o crashOp) string {
	mc := m.Colls[o.Coll]
	sel := func() []string {
		var ids []string
		for _, id := range mc.IDs() {
			if model.Compare(model.Get(mc.Docs[id], "a"), o.Pivot) >= 0 {
				ids = append(ids, id)
			}
		}
		return ids
	}
	switch o.Kind {
	case "CreateCollection":
		if mc != nil {
			return ECollYes
		}
		m.Colls[o.Coll] = model.NewColl()
		return OK
	case "DropCollection":
		if mc == nil {
			return ECollNo
		}
		delete(m.Colls, o.Coll)
		return OK
	case "CreateIndex":
		if mc == nil {
			return ECollNo
		}
		if mc.Indexes[o.Field] {
			return EIdxYes
		}
		mc.Indexes[o.Field] = true
		return OK
	case "DropIndex":
		if mc == nil {
			return ECollNo
		}
		if !mc.Indexes[o.Field] {
			return EIdxNo
		}
		delete(mc.Indexes, o.Field)
		return OK
	case "Insert", "InsertBig":
		if mc == nil {
			return ECollNo
		}
		seen := map[string]bool{}
		for _, d := range o.Docs {
			id := d["_id"].(string)
			if mc.Docs[id] != nil || seen[id] {
				return EDup
			}
			seen[id] = true
		}
		for _, d := range o.Docs {
			mc.Docs[d["_id"].(string)] = model.CopyDoc(d)
		}
		return OK
	case "UpdateById":
		if mc == nil {
			return ECollNo
		}
		d := mc.Docs[o.ID]
		if d == nil {
			return EDocNo
		}
		d[o.Field] = o.Val
		return OK
	case "ReplaceById":
		if mc == nil {
			return ECollNo
		}
		if mc.Docs[o.ID] == nil {
			return EDocNo
		}
		mc.Docs[o.ID] = model.CopyDoc(o.Docs[0])
		return OK
	case "DeleteById":
		if mc == nil {
			return ECollNo
		}
		delete(mc.Docs, o.ID)
		return OK
	case "Update", "UpdateFunc":
		if mc == nil {
			return ECollNo
		}
		for _, id := range sel() {
			mc.Docs[id][o.Field] = o.Val
		}
		return OK
	case "UpdatePanic": // the updater panics at the second document it is given; the caller recovers: nothing may have changed
		if mc == nil {
			return ECollNo
		}
		ids := sel()
		if len(ids) >= 2 {
			return EPanic
		}
		for _, id := range ids {
			mc.Docs[id][o.Field] = o.Val
		}
		return OK
	case "Delete":
		if mc == nil {
			return ECollNo
		}
		for _, id := range sel() {
			delete(mc.Docs, id)
		}
		return OK
	case "CreateCollectionByQuery":
		if m.Colls[o.Coll2] != nil {
			return ECollYes
		}
		if mc == nil {
			return ECollNo
		}
		nc := model.NewColl()
		for _, id := range sel() {
			nc.Docs[id] = model.CopyDoc(mc.Docs[id])
		}
		m.Colls[o.Coll2] = nc
		return OK
	case "ImportDup": // a file repeating one _id: the import must fail as a whole
		if mc != nil {
			return ECollYes
		}
		return EDup
	case "ImportCollection":
		if mc != nil {
			return ECollYes
		}
		nc := model.NewColl()
		for _, d := range o.Docs {
			nc.Docs[d["_id"].(string)] = jsonImage(d).(map[string]any)
		}
		m.Colls[o.Coll] = nc
		return OK
	}
	panic("unknown crash op " + o.Kind)
}

// crashHistory generates the operation list from the seed, against a pure model.
func crashHistory(seed uint64) []crashOp {
	r := gen.New(seed)
	m := model.NewDB()
	var ops []crashOp
	add := func(o crashOp) {
		ops = append(ops, o)
		applyCrashOp(m, o)
	}
	names := []string{"c1", "c2", "c:3"}
	pad := gen.Pick(r, []int{0, 0, 200, 900})
	add(crashOp{Kind: "CreateCollection", Coll: "c1"})
	if r.Bool() {
		add(crashOp{Kind: "CreateIndex", Coll: "c1", Field: "a"})
	}
	n0 := gen.Pick(r, []int{3, 10, 40, 120})
	docs := make([]map[string]any, n0)
	for i := range docs {
		docs[i] = crashDoc(r, pad)
	}
	add(crashOp{Kind: "Insert", Coll: "c1", Docs: docs})
	nops := r.Range(8, 16)
	if seed%5 == 0 {
		// one operation beyond badger's default transaction size (a store may refuse it, but never apply a part of it)
		big := make([]map[string]any, 12)
		for i := range big {
			big[i] = map[string]any{"_id": r.UUID(), "a": int64(i % 9), "blob": strings.Repeat("z", 900<<10)}
		}
		add(crashOp{Kind: "InsertBig", Coll: "c1", Docs: big})
		nops = r.Range(3, 6)
	}
	existing := func() string {
		ns := m.Names()
		if len(ns) == 0 {
			return "c1"
		}
		return gen.Pick(r, ns)
	}
	pickID := func(c string) string {
		if mc := m.Colls[c]; mc != nil && len(mc.Docs) > 0 && r.P(85) {
			return gen.Pick(r, mc.IDs())
		}
		return r.UUID()
	}
	for i := 0; i < nops; i++ {
		c := existing()
		switch r.Weighted([]int{4, 4, 6, 3, 14, 10, 4, 6, 8, 6, 5, 3, 3, 3, 3}) {
		case 14:
			add(crashOp{Kind: "UpdatePanic", Coll: c, Pivot: int64(r.Range(0, 6)), Field: gen.Pick(r, []string{"a", "b", "z"}), Val: int64(r.Range(10, 19)), Sort: r.P(30)})
		case 13:
			// an import that fails after it started, then operations on the name it did not create
			name := gen.Pick(r, []string{"d1", "d2"})
			n := r.Range(2, 6)
			ds := make([]map[string]any, n)
			for k := range ds {
				ds[k] = map[string]any{"_id": r.UUID(), "a": int64(r.Intn(9)), "s": "imp"}
			}
			ds[n-1]["_id"] = ds[r.Intn(n-1)]["_id"]
			add(crashOp{Kind: "ImportDup", Coll: name, Docs: ds})
			add(crashOp{Kind: "Insert", Coll: name, Docs: []map[string]any{crashDoc(r, 0)}})
			add(crashOp{Kind: "CreateIndex", Coll: name, Field: "a"})
			if r.Bool() {
				add(crashOp{Kind: "CreateCollection", Coll: name})
				add(crashOp{Kind: "Insert", Coll: name, Docs: []map[string]any{crashDoc(r, 0), crashDoc(r, 0)}})
			}
		case 0:
			add(crashOp{Kind: "CreateCollection", Coll: gen.Pick(r, names)})
		case 1:
			if len(m.Colls) > 1 {
				add(crashOp{Kind: "DropCollection", Coll: c})
			}
		case 2:
			add(crashOp{Kind: "CreateIndex", Coll: c, Field: gen.Pick(r, []string{"a", "b", "s", "n.a", "arr"})})
		case 3:
			f := gen.Pick(r, []string{"a", "b", "s"})
			if mc := m.Colls[c]; mc != nil && len(mc.Indexes) > 0 {
				f = gen.Pick(r, mc.IndexList())
			}
			add(crashOp{Kind: "DropIndex", Coll: c, Field: f})
		case 4:
			n := r.Range(1, 12)
			ds := make([]map[string]any, n)
			for k := range ds {
				ds[k] = crashDoc(r, pad)
			}
			if r.P(8) && m.Colls[c] != nil && len(m.Colls[c].Docs) > 0 {
				ds[n-1]["_id"] = gen.Pick(r, m.Colls[c].IDs()) // a duplicate: the whole batch must fail
			}
			add(crashOp{Kind: "Insert", Coll: c, Docs: ds})
		case 5:
			add(crashOp{Kind: "UpdateById", Coll: c, ID: pickID(c), Field: gen.Pick(r, []string{"a", "b", "z"}), Val: int64(r.Range(0, 9))})
		case 6:
			id := pickID(c)
			d := crashDoc(r, pad)
			d["_id"] = id
			add(crashOp{Kind: "ReplaceById", Coll: c, ID: id, Docs: []map[string]any{d}})
		case 7:
			add(crashOp{Kind: "DeleteById", Coll: c, ID: pickID(c)})
		case 8:
			add(crashOp{Kind: "Update", Coll: c, Pivot: int64(r.Range(0, 9)), Field: gen.Pick(r, []string{"a", "b", "z"}), Val: int64(r.Range(0, 9)), Sort: r.P(30)})
		case 9:
			add(crashOp{Kind: "UpdateFunc", Coll: c, Pivot: int64(r.Range(0, 9)), Field: gen.Pick(r, []string{"a", "b", "z"}), Val: int64(r.Range(0, 9)), Sort: r.P(30)})
		case 10:
			add(crashOp{Kind: "Delete", Coll: c, Pivot: int64(r.Range(3, 9)), Sort: r.P(30)})
		case 11:
			add(crashOp{Kind: "CreateCollectionByQuery", Coll: c, Coll2: gen.Pick(r, []string{"q1", "q2", "c2"}), Pivot: int64(r.Range(0, 6))})
		case 12:
			n := r.Range(1, 8)
			ds := make([]map[string]any, n)
			for k := range ds {
				ds[k] = map[string]any{"_id": r.UUID(), "a": int64(r.Intn(9)), "s": "imp"}
			}
			add(crashOp{Kind: "ImportCollection", Coll: gen.Pick(r, []string{"i1", "i2", "c2", "I" + strings.Repeat("n", 519)}), Docs: ds})
		}
	}
	return ops
}

// execCrashOp executes the operation on a real database.
func execCrashOp(db *clover.DB, o crashOp, dir string) error {
	q := func() *query.Query {
		qq := query.NewQuery(o.Coll).Where(query.Field("a").GtEq(o.Pivot))
		if o.Sort {
			qq = qq.Sort(query.SortOption{Field: "b", Direction: -1})
		}
		return qq
	}
	switch o.Kind {
	case "CreateCollection":
		return db.CreateCollection(o.Coll)
	case "DropCollection":
		return db.DropCollection(o.Coll)
	case "CreateIndex":
		return db.CreateIndex(o.Coll, o.Field)
	case "DropIndex":
		return db.DropIndex(o.Coll, o.Field)
	case "Insert", "InsertBig":
		ds := make([]*document.Document, len(o.Docs))
		for i, d := range o.Docs {
			ds[i] = model.NewDoc(d)
		}
		return db.Insert(o.Coll, ds...)
	case "UpdateById":
		return db.UpdateById(o.Coll, o.ID, func(d *document.Document) *document.Document {
			n := d.Copy()
			n.Set(o.Field, o.Val)
			return n
		})
	case "ReplaceById":
		return db.ReplaceById(o.Coll, o.ID, model.NewDoc(o.Docs[0]))
	case "DeleteById":
		return db.DeleteById(o.Coll, o.ID)
	case "Update":
		return db.Update(q(), map[string]interface{}{o.Field: o.Val})
	case "UpdateFunc":
		return db.UpdateFunc(q(), func(d *document.Document) *document.Document {
			d.Set(o.Field, o.Val)
			return d
		})
	case "UpdatePanic":
		calls := 0
		return Do(func() error {
			return db.UpdateFunc(q(), func(d *document.Document) *document.Document {
				calls++
				if calls == 2 {
					panic("updater failed")
				}
				n := d.Copy()
				n.Set(o.Field, o.Val)
				return n
			})
		})
	case "Delete":
		return db.Delete(q())
	case "CreateCollectionByQuery":
		return db.CreateCollectionByQuery(o.Coll2, query.NewQuery(o.Coll).Where(query.Field("a").GtEq(o.Pivot)))
	case "ImportCollection", "ImportDup":
		var b strings.Builder
		b.WriteString("[")
		for i, d := range o.Docs {
			if i > 0 {
				b.WriteString(",")
			}
			fmt.Fprintf(&b, `{"_id":"%s","a":%d,"s":"imp"}`, d["_id"], d["a"])
		}
		b.WriteString("]")
		f := filepath.Join(dir, "import.json")
		if err := os.WriteFile(f, []byte(b.String()), 0644); err != nil {
			return err
		}
		return db.ImportCollection(o.Coll, f)
	}
	return fmt.Errorf("unknown op")
}

// CrashChild is the body of the child process: it replays the history from
// operation `start` and acknowledges every operation in the ack file.
// mode: "raw" = clover.Open / badgerstore.Open (the default opening paths);
// "wrapped" = behind the monitor, which kills the process at store call
// killCall of operation killOp.
func CrashChild(dir, backend string, seed uint64, start, killOp, killCall int, ackPath string) int {
	ops := crashHistory(seed)
	ack, err := os.OpenFile(ackPath, os.O_WRONLY|os.O_APPEND|os.O_CREATE, 0644)
	if err != nil {
		fmt.Fprintln(os.Stderr, err)
		return 3
	}
	c := &core.Ctx{Scratch: filepath.Dir(dir)}
	h, err := Open(c, backend, dir)
	if err != nil {
		fmt.Fprintln(os.Stderr, "open:", err)
		return 3
	}
	tmp := filepath.Join(filepath.Dir(ackPath), "childtmp")
	os.MkdirAll(tmp, 0755)
	ack.Write([]byte("R\n")) // ready
	for i := start; i < len(ops); i++ {
		ack.Write([]byte(fmt.Sprintf("B %d\n", i)))
		if h.MS != nil {
			h.MS.BeginOp(false)
			if i == killOp {
				h.MS.SetKillAt(killCall)
			}
		}
		err := execCrashOp(h.DB, ops[i], tmp)
		if h.MS != nil {
			st := h.MS.EndOp()
			if i == killOp {
				// the operation made fewer store calls than the kill point: die right after it returned, before the acknowledgement
				_ = st
				syscall.Kill(os.Getpid(), syscall.SIGKILL)
				time.Sleep(time.Hour)
			}
		}
		ack.Write([]byte(fmt.Sprintf("A %d %s\n", i, Classify(err))))
	}
	if err := h.DB.Close(); err != nil {
		fmt.Fprintln(os.Stderr, "close:", err)
		return 3
	}
	ack.Write([]byte("D\n"))
	return 0
}

type ackState struct {
	acked    map[int]string
	inflight int // -1 = none
	done     bool
}

func readAck(path string) ackState {
	st := ackState{acked: map[int]string{}, inflight: -1}
	f, err := os.Open(path)
	if err != nil {
		return st
	}
	defer f.Close()
	sc := bufio.NewScanner(f)
	for sc.Scan() {
		fs := strings.Fields(sc.Text())
		if len(fs) == 0 {
			continue
		}
		switch fs[0] {
		case "B":
			if len(fs) == 2 {
				st.inflight, _ = strconv.Atoi(fs[1])
			}
		case "A":
			if len(fs) == 3 {
				i, _ := strconv.Atoi(fs[1])
				st.acked[i] = fs[2]
				if st.inflight == i {
					st.inflight = -1
				}
			}
		case "D":
			st.done = true
		}
	}
	return st
}

// auditAgainst opens nothing: it audits an already open handle against a candidate model; true = consistent.
func auditAgainst(c *core.Ctx, h *Handle, m *model.DB) (bool, string) {
	sub := c.Sub()
	s := NewS(sub, h)
	s.m = m
	s.Audit("crash recovery")
	if s.failed || sub.NumViolations() > 0 {
		return false, sub.FirstViolation()
	}
	return true, ""
}

func phaseOfKill(kind mon.Kind, wrote bool, last bool) string {
	switch {
	case last:
		return "after-commit-before-ack"
	case kind == mon.KCommit:
		return "before-commit"
	case wrote:
		return "between-writes"
	}
	return "before-first-write"
}

// RunCrash decides C05 on one history: several kills, each followed by a reopen and a full audit.
func RunCrash(c *core.Ctx) {
	r := c.R
	seed := r.U64()
	ops := crashHistory(seed)
	backend := gen.Pick(r, []string{BBolt, BBolt, BBolt, BadgerDisk})
	if seed%5 == 0 && r.P(70) {
		backend = BadgerShip // shipped options: values below 1 MB count towards the transaction size
	}
	rawBackend := BBoltRaw // the default opening path clover.Open(dir), no monitor
	if backend != BBolt {
		rawBackend = backend // same options on every open of one directory
	}
	c.Backend = backend
	self, _ := os.Executable()
	dirSeq++
	base := filepath.Join(c.Scratch, fmt.Sprintf("crash%d", dirSeq))
	dbdir := filepath.Join(base, "db")
	os.MkdirAll(dbdir, 0755)
	defer os.RemoveAll(base)
	ackPath := filepath.Join(base, "ack")

	// learn the store-call trace of every operation on a scratch database (in-process)
	traces := make([][]mon.Event, len(ops))
	{
		h, err := Open(c, backend, filepath.Join(base, "learn"))
		if err != nil {
			c.Violate("open-error", "%v", err)
			return
		}
		m := model.NewDB()
		for i, o := range ops {
			h.MS.BeginOp(true)
			err := Do(func() error { return execCrashOp(h.DB, o, base) })
			traces[i] = h.MS.EndOp().Trace
			if o.Kind == "InsertBig" && err != nil {
				continue // a store may refuse a transaction of that size: then it has no effect
			}
			want := applyCrashOp(m, o)
			if got := Classify(err); got != want {
				c.Log("%s -> %s", o, got)
				c.Violate("crash:outcome:"+o.Kind, "%s returned %s (%v), the model says %s", o, got, err, want)
				h.Destroy()
				return
			}
		}
		h.Destroy()
	}

	_, straceErr := exec.LookPath("strace")
	haveStrace := straceErr == nil
	m := model.NewDB() // state of all acknowledged operations
	start := 0
	nkills := 0
	maxKills := 14
	if c.Thorough() {
		maxKills = 30
	}
	for start < len(ops) && nkills <= maxKills {
		// choose a kill point in the remaining history
		killOp, killCall, mode := -1, 0, "none"
		if nkills < maxKills {
			killOp = start + r.Intn(min(4, len(ops)-start))
			// prefer the next operation that commits more than once (if there is one)
			for j := start; j < len(ops); j++ {
				commits := 0
				for _, e := range traces[j] {
					if e.Kind == mon.KCommit {
						commits++
					}
				}
				if (commits > 1 && r.P(60)) || (ops[j].Kind == "InsertBig" && r.P(80)) {
					killOp = j
					break
				}
			}
			switch k := r.Intn(10); {
			case k <= 1:
				mode = "timed"
			case k == 2 && backend == BBolt && haveStrace:
				mode = "syscall" // die at the entry of the N-th pwrite64 of some thread: inside bbolt's commit
			case k == 2:
				mode = "timed"
			case k == 3 && haveStrace:
				// die at the entry of the N-th file-system call of some thread that creates, sizes, syncs, renames or
				// removes a file: inside Open (log files are created and then sized), inside a commit, inside Close
				mode = "syscall-fs"
			default:
				mode = "store-call"
				killCall = 1 + r.Intn(len(traces[killOp])+1)
				// an operation whose trace holds several commits is the interesting one: die right after an inner commit
				var inner []int
				for i, e := range traces[killOp] {
					if e.Kind == mon.KCommit && i+2 <= len(traces[killOp]) {
						inner = append(inner, i+2)
					}
				}
				if len(inner) > 1 && r.P(75) {
					killCall = inner[r.Intn(len(inner)-1)]
				} else if ops[killOp].Kind == "InsertBig" && r.P(80) {
					// late in a very large operation: a store that flushes behind the scenes has done so by now
					n := len(traces[killOp])
					killCall = n - r.Intn(max(1, n/4))
				}
			}
		}
		os.Remove(ackPath)
		be := backend
		if mode == "timed" || mode == "syscall" || mode == "syscall-fs" {
			be = rawBackend // the default opening path, no monitor
		}
		args := []string{"crashchild", "-dir", dbdir, "-backend", be, "-seed", fmt.Sprint(seed), "-start", fmt.Sprint(start), "-ack", ackPath}
		if mode == "store-call" {
			args = append(args, "-killop", fmt.Sprint(killOp), "-killcall", fmt.Sprint(killCall))
		} else {
			args = append(args, "-killop", "-1")
		}
		cmd := exec.Command(self, args...)
		if mode == "syscall" {
			nth := 1 + r.Intn(24)
			sargs := append([]string{"-f", "-qq", "-o", "/dev/null", "-e", "trace=pwrite64", "-e", fmt.Sprintf("inject=pwrite64:signal=SIGKILL:when=%d", nth), self}, args...)
			cmd = exec.Command("strace", sargs...)
			killCall = nth
		}
		if mode == "syscall-fs" {
			nth := 1 + r.Intn(10)
			set := "ftruncate,fsync,fdatasync,rename,renameat,renameat2,unlink,unlinkat"
			sargs := append([]string{"-f", "-qq", "-o", "/dev/null", "-e", "trace=" + set, "-e", fmt.Sprintf("inject=%s:signal=SIGKILL:when=%d", set, nth), self}, args...)
			cmd = exec.Command("strace", sargs...)
			killCall = nth
		}
		logf, _ := os.Create(filepath.Join(base, "child.log"))
		cmd.Stdout, cmd.Stderr = logf, logf
		if err := cmd.Start(); err != nil {
			c.Violate("crash:child-start", "%v", err)
			return
		}
		core.Tick()
		if mode == "timed" {
			// wait for the begin mark of the chosen operation, then kill after a seeded delay
			deadline := time.Now().Add(60 * time.Second)
			for time.Now().Before(deadline) {
				st := readAck(ackPath)
				if st.done || st.inflight >= killOp || len(st.acked) > killOp-start {
					break
				}
				time.Sleep(200 * time.Microsecond)
			}
			time.Sleep(time.Duration(r.Intn(3000)) * time.Microsecond)
			cmd.Process.Kill()
		}
		waitErr := cmd.Wait()
		logf.Close()
		core.Tick()
		st := readAck(ackPath)
		killed := waitErr != nil
		if killed && cmd.ProcessState != nil && cmd.ProcessState.ExitCode() == 2 {
			lb, _ := os.ReadFile(filepath.Join(base, "child.log"))
			tail := string(lb)
			if len(tail) > 3000 {
				tail = tail[:3000]
			}
			c.Violate("crash:child-panic", "the child process died by itself (Go runtime exit status 2) while replaying the history:\n%s", tail)
			return
		}
		if killed && cmd.ProcessState != nil && cmd.ProcessState.ExitCode() == 3 {
			lb, _ := os.ReadFile(filepath.Join(base, "child.log"))
			c.Violate("crash:child-error", "the child failed on its own: %s", string(lb))
			return
		}
		// apply acknowledged operations to the model, cross-checking their outcome
		next := start
		for next < len(ops) {
			cls, ok := st.acked[next]
			if !ok {
				break
			}
			if ops[next].Kind == "InsertBig" && cls != OK {
				c.Log("%s -> %s (acknowledged, refused by the store)", ops[next], cls)
				next++
				continue
			}
			want := applyCrashOp(m, ops[next])
			c.Log("%s -> %s (acknowledged)", ops[next], cls)
			if cls != want {
				c.Violate("crash:outcome:"+ops[next].Kind, "%s was acknowledged as %s, the model says %s", ops[next], cls, want)
				return
			}
			next++
		}
		inflight := -1
		if killed && st.inflight >= next {
			inflight = st.inflight
		}
		if killed {
			nkills++
			c.Log("-- process killed (%s, op %d call %d); in flight: %d", mode, killOp, killCall, inflight)
		}
		// reopen and audit: the state must be S_acked or S_acked + in-flight, nothing else
		h, err := Open(c, backend, dbdir)
		if err != nil {
			c.Violate("crash:reopen", "reopening after the kill failed: %v", err)
			return
		}
		c.Eval(1)
		ok, why := auditAgainst(c, h, m)
		adopted := "acked"
		if !ok && inflight >= 0 {
			m2 := m.Clone()
			applyCrashOp(m2, ops[inflight])
			ok2, why2 := auditAgainst(c, h, m2)
			if ok2 {
				ok, m, adopted = true, m2, "acked+inflight"
				next = inflight + 1
			} else {
				why = why + "\n  and against acknowledged + in-flight: " + why2
			}
		}
		h.Close()
		if !ok {
			desc := "none"
			if inflight >= 0 {
				desc = ops[inflight].String()
			}
			sig := "crash:state"
			if inflight >= 0 {
				sig = "crash:partial:" + ops[inflight].Kind
			} else if killed {
				sig = "crash:lost-ack"
			}
			c.Violate(sig, "after a kill (%s) and reopen on %s the database is neither the acknowledged state nor that plus the in-flight operation (%s):\n  %s", mode, backend, desc, why)
			return
		}
		if killed {
			phase := mode
			if mode == "syscall" {
				phase = "inside-commit(pwrite64)"
			}
			if mode == "syscall-fs" {
				phase = "fs-call"
				if len(st.acked) == 0 && st.inflight < 0 {
					phase = "fs-call-inside-open"
				}
			}
			if mode == "store-call" {
				tr := traces[killOp]
				if killCall > len(tr) {
					phase = phaseOfKill(0, true, true)
				} else {
					wrote, committed := false, false
					for _, e := range tr[:killCall-1] {
						if e.Kind == mon.KSet || e.Kind == mon.KDelete {
							wrote = true
						}
						if e.Kind == mon.KCommit {
							committed = true
						}
					}
					phase = phaseOfKill(tr[killCall-1].Kind, wrote, committed)
				}
			}
			kind := "none"
			if inflight >= 0 {
				kind = ops[inflight].Kind
			} else if killOp >= 0 && killOp < len(ops) {
				kind = ops[killOp].Kind
			}
			c.Cell("kill|%s|%s|%s|%s", kind, phase, adopted, backendClass(backend))
			c.Count("kills", 1)
			c.Count("kills_"+adopted, 1)
		}
		if !killed && st.done {
			c.Count("clean_completions", 1)
			start = len(ops)
			break
		}
		start = next
	}
	c.Sample(map[string]any{"backend": backend, "operations": len(ops), "kills": nkills, "history_head": head(c.Hist, 8)})
}

// RunReopen: clean close/reopen + audit after every prefix of a history (in-process).
func RunReopen(c *core.Ctx) {
	r := c.R
	ops := crashHistory(r.U64())
	backend := gen.Pick(r, []string{BBolt, BBoltRaw, BadgerDisk, BadgerShip})
	c.Backend = backend
	h, err := Open(c, backend, "")
	if err != nil {
		c.Violate("open-error", "%v", err)
		return
	}
	defer h.Destroy()
	m := model.NewDB()
	tmp := filepath.Join(c.Scratch, "reopen-tmp")
	os.MkdirAll(tmp, 0755)
	for i, o := range ops {
		err := Do(func() error { return execCrashOp(h.DB, o, tmp) })
		if o.Kind == "InsertBig" && err != nil {
			c.Log("%s -> %s (refused by the store)", o, Classify(err))
			if ok, why := auditAgainst(c, h, m); !ok {
				c.Violate("crash:refused-big-op-left-trace", "%s was refused (%v) but changed the database:\n  %s", o, err, why)
				return
			}
			continue
		}
		want := applyCrashOp(m, o)
		c.Log("%s -> %s", o, Classify(err))
		if got := Classify(err); got != want {
			c.Violate("crash:outcome:"+o.Kind, "%s returned %s (%v), the model says %s", o, got, err, want)
			return
		}
		if err := h.Reopen(c); err != nil {
			c.Violate("reopen:error", "close/reopen after operation %d failed: %v", i, err)
			return
		}
		c.Eval(1)
		if ok, why := auditAgainst(c, h, m); !ok {
			c.Violate("reopen:state:"+o.Kind, "after %s, close and reopen on %s the database differs from the acknowledged state:\n  %s", o, backend, why)
			return
		}
		c.Cell("reopen|after=%s|%s", o.Kind, backendClass(backend))
	}
	c.Sample(map[string]any{"backend": backend, "prefixes": len(ops)})
}

// RunFsyncOrder traces a child that replays a history on the default on-disk
// backend with strace and checks, offline over the syscall log, that every
// acknowledged mutating operation was made durable before it was acknowledged:
// after the last pwrite64 of the operation an fdatasync/fsync completes before
// the acknowledgement is written. This is the observation a process kill cannot
// give (the page cache survives a kill) and what a NoSync-style change breaks.
func RunFsyncOrder(c *core.Ctx) {
	r := c.R
	seed := r.U64()
	ops := crashHistory(seed)
	c.Backend = BBoltRaw
	self, _ := os.Executable()
	dirSeq++
	base := filepath.Join(c.Scratch, fmt.Sprintf("fsync%d", dirSeq))
	dbdir := filepath.Join(base, "db")
	os.MkdirAll(dbdir, 0755)
	defer os.RemoveAll(base)
	ackPath := filepath.Join(base, "ack")
	logPath := filepath.Join(base, "strace.log")
	if _, err := exec.LookPath("strace"); err != nil {
		c.Inconclusive("strace_missing")
		return
	}
	cmd := exec.Command("strace", "-f", "-qq", "-o", logPath, "-e", "trace=pwrite64,fdatasync,fsync,write", "-e", "signal=none", "-s", "24",
		self, "crashchild", "-dir", dbdir, "-backend", BBoltRaw, "-seed", fmt.Sprint(seed), "-start", "0", "-killop", "-1", "-ack", ackPath)
	out, err := cmd.CombinedOutput()
	core.Tick()
	if err != nil {
		// strace not permitted here (ptrace restrictions): nothing can be said
		c.Log("strace failed: %v %s", err, string(out))
		c.Inconclusive("strace_failed")
		return
	}
	f, err := os.Open(logPath)
	if err != nil {
		c.Inconclusive("strace_failed")
		return
	}
	defer f.Close()
	type win struct {
		lastPwrite, syncAfter int
		pwrites               int
	}
	cur := -1 // operation whose window is open
	w := win{lastPwrite: -1, syncAfter: -1}
	lineNo := 0
	checked := 0
	sc := bufio.NewScanner(f)
	sc.Buffer(make([]byte, 1<<20), 1<<20)
	for sc.Scan() {
		line := sc.Text()
		lineNo++
		switch {
		case strings.Contains(line, "write(") && strings.Contains(line, "\"B "):
			i := strings.Index(line, "\"B ")
			fmt.Sscanf(line[i+3:], "%d", &cur)
			w = win{lastPwrite: -1, syncAfter: -1}
		case strings.Contains(line, "pwrite64("):
			w.lastPwrite = lineNo
			w.pwrites++
		case (strings.Contains(line, "fdatasync(") || strings.Contains(line, "fsync(")) && strings.Contains(line, "= 0") && !strings.Contains(line, "unfinished"):
			w.syncAfter = lineNo
		case strings.Contains(line, "<... fdatasync resumed>") || strings.Contains(line, "<... fsync resumed>"):
			if strings.Contains(line, "= 0") {
				w.syncAfter = lineNo
			}
		case strings.Contains(line, "write(") && strings.Contains(line, "\"A "):
			var idx int
			var cls string
			i := strings.Index(line, "\"A ")
			fmt.Sscanf(strings.ReplaceAll(line[i+3:], "\\n", " "), "%d %s", &idx, &cls)
			if idx != cur || idx >= len(ops) {
				continue
			}
			c.Eval(1)
			if w.pwrites > 0 {
				checked++
				if w.syncAfter < w.lastPwrite {
					c.Violate("durability:ack-before-sync:"+ops[idx].Kind, "%s was acknowledged (%s) although no fdatasync/fsync completed after its last pwrite64 (strace log line %d, %d page writes in the operation): an acknowledged operation would not survive power loss", ops[idx], cls, w.lastPwrite, w.pwrites)
					return
				}
				c.Cell("fsync-order|%s", ops[idx].Kind)
			}
			cur = -1
		}
	}
	c.Count("fsync_windows_checked", checked)
	if checked == 0 {
		c.Inconclusive("no_page_writes_traced")
		return
	}
	c.Sample(map[string]any{"engine": "fsync-order", "operations": len(ops), "windows_with_page_writes": checked, "strace_lines": lineNo})
}

// RunCrashArtifacts plants, in a cleanly closed badger directory, what a kill inside badger's own file
// handling leaves behind - zero-length memtable logs (a kill between "truncate" and "unlink" while a flushed
// memtable is deleted, e.g. during Close, or right after a new one was created) - and requires the database
// to reopen with every acknowledged operation intact. (The random timed kills produce the same artifact
// only when they happen to land in that window; this makes the observation deterministic.)
func RunCrashArtifacts(c *core.Ctx) {
	r := c.R
	ops := crashHistory(r.U64())
	backend := gen.Pick(r, []string{BadgerDisk, BadgerShip})
	c.Backend = backend
	h, err := Open(c, backend, "")
	if err != nil {
		c.Violate("open-error", "%v", err)
		return
	}
	defer h.Destroy()
	m := model.NewDB()
	tmp := filepath.Join(c.Scratch, "artifact-tmp")
	os.MkdirAll(tmp, 0755)
	for _, o := range ops {
		err := Do(func() error { return execCrashOp(h.DB, o, tmp) })
		if o.Kind == "InsertBig" && err != nil {
			continue
		}
		want := applyCrashOp(m, o)
		if got := Classify(err); got != want {
			c.Violate("crash:outcome:"+o.Kind, "%s returned %s (%v), the model says %s", o, got, err, want)
			return
		}
	}
	if err := h.Close(); err != nil {
		c.Violate("reopen:error", "close failed: %v", err)
		return
	}
	// What a kill leaves when it lands between the creation of a log file and its
	// first truncate-to-size: a zero-length memtable log (any number: Open and every
	// memtable switch create one, Close deletes one) or a zero-length value log whose
	// number follows the highest existing one (Open of a fresh directory, log rotation).
	var planted []string
	kind := r.Intn(3)
	if kind != 1 {
		planted = append(planted, fmt.Sprintf("%05d.mem", 1+r.Intn(3)))
		if r.Bool() {
			planted = append(planted, fmt.Sprintf("%05d.mem", 10+r.Intn(50)))
		}
	}
	if kind != 0 {
		vlogs, _ := filepath.Glob(filepath.Join(h.Dir, "*.vlog"))
		next := 0
		for _, v := range vlogs {
			var n int
			if _, err := fmt.Sscanf(filepath.Base(v), "%06d.vlog", &n); err == nil && n > next {
				next = n
			}
		}
		planted = append(planted, fmt.Sprintf("%06d.vlog", next+1))
	}
	for _, f := range planted {
		os.WriteFile(filepath.Join(h.Dir, f), nil, 0666)
	}
	c.Log("Close(); planted empty log files %v", planted)
	n, err := Open(c, backend, h.Dir)
	c.Eval(1)
	if err != nil {
		c.Violate("crash:reopen", "after a kill that left zero-length log files %v behind, the badger-backed database cannot be reopened: %v", planted, firstLine(err.Error()))
		return
	}
	*h = *n
	if ok, why := auditAgainst(c, h, m); !ok {
		c.Violate("crash:state", "reopened over zero-length log files, the database differs from the acknowledged state: %s", why)
		return
	}
	c.Cell("crash-artifact|%s|%d-files|%s", []string{"empty-memtable-log", "empty-value-log", "empty-memtable-and-value-log"}[kind], len(planted), backend)
}

func firstLine(s string) string {
	if i := strings.IndexByte(s, '\n'); i > 0 {
		return s[:i]
	}
	return s
}
