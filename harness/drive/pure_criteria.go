package drive

import (
	"fmt"
	"sort"
	"strings"

	"github.com/ostafen/clover/v2/document"

	"verif/harness/core"
	"verif/harness/gen"
	"verif/harness/model"
)

func satisfy(cr *model.Crit, doc *document.Document) (res bool, err error) {
	err = Do(func() error {
		res = cr.ToClover().Satisfy(doc)
		return nil
	})
	return
}

// RunCriteriaPure evaluates random criteria on random documents through
// Criteria.Satisfy directly and checks (1) agreement with the model, (2) the
// algebraic identities the property names.
func RunCriteriaPure(c *core.Ctx) {
	r := c.R
	sch := r.Schema()
	nd := 12
	docs := make([]map[string]any, nd)
	cdocs := make([]*document.Document, nd)
	for i := range docs {
		docs[i] = r.DocWithID(sch)
		cdocs[i] = model.NewDoc(docs[i])
	}
	cx := &gen.CritCtx{S: sch, Docs: docs, GoTypes: false}
	ev := func(cr *model.Crit, i int) (bool, bool) {
		got, err := satisfy(cr, cdocs[i])
		if pe, ok := IsPanic(err); ok {
			c.Violate(PanicSig(pe), "Satisfy(%s) on %s panicked: %v\n%s", cr, model.Render(docs[i]), pe.Val, trim(pe.Stack, 25))
			return false, false
		}
		return got, true
	}
	ncrit := 40
	for k := 0; k < ncrit; k++ {
		a := r.Crit(cx, r.Range(1, 4))
		b := r.Crit(cx, r.Range(1, 3))
		ident := []struct {
			name string
			l, r *model.Crit
		}{
			{"double-negation", model.Not(model.Not(a)), a},
			{"de-morgan-and", model.Not(model.And(a, b)), model.Or(model.Not(a), model.Not(b))},
			{"de-morgan-or", model.Not(model.Or(a, b)), model.And(model.Not(a), model.Not(b))},
			{"and-commutes", model.And(a, b), model.And(b, a)},
			{"or-commutes", model.Or(a, b), model.Or(b, a)},
		}
		// operator definitions on a fresh leaf
		f := gen.Pick(r, sch.Fields)
		lit := r.Leaf(cx)
		for lit.Op != model.OpEq {
			lit = r.Leaf(cx)
		}
		f = lit.Field
		ident = append(ident,
			struct {
				name string
				l, r *model.Crit
			}{"neq-is-not-eq", &model.Crit{Op: model.OpNeq, Field: f, Arg: lit.Arg}, model.Not(&model.Crit{Op: model.OpEq, Field: f, Arg: lit.Arg})},
			struct {
				name string
				l, r *model.Crit
			}{"notexists-is-not-exists", &model.Crit{Op: model.OpNotExists, Field: f}, model.Not(&model.Crit{Op: model.OpExists, Field: f})},
		)
		// In(v1..vn) == OR of "compares equal" ; Contains(e1..en) == AND Contains(ei)
		inLeaf := r.Leaf(cx)
		for inLeaf.Op != model.OpIn {
			inLeaf = r.Leaf(cx)
		}
		var containsLeaf *model.Crit
		for i := 0; i < 50; i++ {
			l := r.Leaf(cx)
			if l.Op == model.OpContains && len(l.Args) >= 2 {
				containsLeaf = l
				break
			}
		}
		if containsLeaf != nil {
			var conj *model.Crit
			for _, a := range containsLeaf.Args {
				one := &model.Crit{Op: model.OpContains, Field: containsLeaf.Field, Args: []model.Operand{a}}
				if conj == nil {
					conj = one
				} else {
					conj = model.And(conj, one)
				}
			}
			ident = append(ident, struct {
				name string
				l, r *model.Crit
			}{"contains-is-conjunction", containsLeaf, conj})
		}
		for i := range docs {
			// (1) model agreement for a, b and the In leaf
			for _, cr := range []*model.Crit{a, b, inLeaf} {
				got, ok := ev(cr, i)
				if !ok {
					return
				}
				e := &model.Eval{}
				want := cr.Sat(e, docs[i])
				c.Eval(1)
				if e.Unspec {
					c.Inconclusive("unspecified_comparison")
					continue
				}
				if got != want {
					c.Violate("criteria:model:"+leafOps(cr), "Satisfy(%s) = %v on %s, documented semantics say %v", cr, got, model.Render(docs[i]), want)
					return
				}
			}
			// In: matches iff the field compares equal to one of the listed values (absent behaves as nil)
			{
				got, ok := ev(inLeaf, i)
				if !ok {
					return
				}
				anyEq := false
				e := &model.Eval{}
				fv := model.Get(docs[i], inLeaf.Field)
				for _, a := range inLeaf.Args {
					var av any
					switch a.Kind {
					case model.Lit:
						av = a.Val
						if s, isS := av.(string); isS && strings.HasPrefix(s, "$") {
							av = model.Get(docs[i], strings.TrimLeft(s, "$"))
						}
					default:
						av = model.Get(docs[i], a.Ref)
					}
					if e.Compare(fv, av) == 0 {
						anyEq = true
					}
				}
				if !e.Unspec && got != anyEq {
					c.Violate("criteria:in-definition", "Satisfy(%s) = %v on %s but the field %s one of the listed values", inLeaf, got, model.Render(docs[i]), map[bool]string{true: "equals", false: "equals none of"}[anyEq])
					return
				}
			}
			// (2) identities: both sides evaluated by clover
			for _, id := range ident {
				l, ok := ev(id.l, i)
				if !ok {
					return
				}
				rr, ok := ev(id.r, i)
				if !ok {
					return
				}
				c.Eval(1)
				if l != rr {
					c.Violate("criteria:identity:"+id.name, "identity %s fails on %s:\n  %s = %v\n  %s = %v", id.name, model.Render(docs[i]), id.l, l, id.r, rr)
					return
				}
				absent := "present"
				var lv []*model.Crit
				id.l.Leaves(&lv)
				for _, x := range lv {
					if x.Field != "" && !model.Has(docs[i], x.Field) {
						absent = "absent-field"
					}
				}
				c.Cell("identity|%s|%v|%s", id.name, l, absent)
			}
		}
	}
	c.Sample(map[string]any{"documents": nd, "criteria_per_case": ncrit, "example_document": model.Render(docs[0])})
}

func leafOps(cr *model.Crit) string {
	var lv []*model.Crit
	cr.Leaves(&lv)
	set := map[string]bool{}
	for _, l := range lv {
		set[l.Op.String()] = true
	}
	ks := keys(set)
	if len(ks) > 3 {
		ks = ks[:3]
	}
	return strings.Join(ks, "+")
}

// goKinds lists the same integer as every Go numeric kind that represents it exactly.
func goKinds(n int64) []any {
	out := []any{n}
	if float64(int64(float64(n))) == float64(n) && int64(float64(n)) == n {
		out = append(out, float64(n))
	}
	if int64(float32(n)) == n && float64(float32(n)) == float64(n) {
		out = append(out, float32(n))
	}
	if int64(int(n)) == n {
		out = append(out, int(n))
	}
	if int64(int32(n)) == n {
		out = append(out, int32(n))
	}
	if int64(int16(n)) == n {
		out = append(out, int16(n))
	}
	if int64(int8(n)) == n {
		out = append(out, int8(n))
	}
	if n >= 0 {
		out = append(out, uint(n), uint64(n))
		if int64(uint32(n)) == n {
			out = append(out, uint32(n))
		}
		if int64(uint16(n)) == n {
			out = append(out, uint16(n))
		}
		if int64(uint8(n)) == n {
			out = append(out, uint8(n))
		}
	}
	return out
}

// RunCriteriaDB checks, on a live database with and without indexes, that the
// identities survive the planner and that a literal gives the same result set
// whatever Go numeric kind it is supplied as (bare, inside In, inside Contains,
// inside nested slices/maps).
func RunCriteriaDB(c *core.Ctx) {
	r := c.R
	backend := gen.Pick(r, []string{BBolt, BadgerMem})
	h, err := Open(c, backend, "")
	if err != nil {
		c.Violate("open-error", "opening %s failed: %v", backend, err)
		return
	}
	defer h.Destroy()
	s := NewS(c, h)
	sch := r.SchemaWith(map[string]gen.Profile{"x": {Kind: gen.PMixedNum, Nil: 8, Absent: 8}, "arr": {Kind: gen.PArray}, "a": {Kind: gen.PSmallInt, Absent: 15}})
	s.CreateCollection("k", sch)
	d := &seqRun{S: s, cfg: &SeqCfg{W: weights(nil)}, r: r}
	s.Insert("k", d.newDocsClean("k", r.Range(15, 50)), false)
	if r.Bool() {
		s.CreateIndex("k", "x")
	}
	if r.Bool() {
		s.CreateIndex("k", "a")
	}
	if r.P(30) {
		s.CreateIndex("k", "arr")
	}
	if s.failed {
		return
	}
	mc := s.coll("k")
	find := func(cr *model.Crit) (string, bool) {
		q := &model.Query{Coll: "k", Crit: cr}
		res := s.FindAll(q)
		if s.failed {
			return "", false
		}
		ids := idsOf(res)
		sort.Strings(ids)
		return strings.Join(ids, ","), true
	}
	cx := &gen.CritCtx{S: sch, Docs: mc.DocList(), Bias: mc.IndexList(), GoTypes: true}
	for k := 0; k < 14 && !s.failed; k++ {
		a := r.PlannerCrit(cx)
		b := r.Crit(cx, 2)
		pairs := []struct {
			name string
			l, r *model.Crit
		}{
			{"double-negation", model.Not(model.Not(a)), a},
			{"triple-negation", model.Not(model.Not(model.Not(a))), model.Not(a)},
			{"de-morgan-and", model.Not(model.And(a, b)), model.Or(model.Not(a), model.Not(b))},
			{"de-morgan-or", model.Not(model.Or(a, b)), model.And(model.Not(a), model.Not(b))},
		}
		for _, p := range pairs {
			l, ok := find(p.l)
			if !ok {
				return
			}
			rr, ok := find(p.r)
			if !ok {
				return
			}
			c.Eval(1)
			if l != rr {
				s.viol("criteria-db:identity:"+p.name, "identity %s fails through FindAll (indexes %v):\n  %s\n  %s", p.name, mc.IndexList(), p.l, p.r)
				return
			}
			if l != "" {
				c.Cell("db-identity|%s|idx=%v|%s", p.name, len(mc.Indexes) > 0, s.plan)
			}
		}
	}
	// literal-type invariance
	// documents holding a few large numbers, as int64 / uint64 / float64
	bigs := []int64{1 << 40, 1<<30 + 128, 33554436}
	var bigDocs []map[string]any
	for i, b := range bigs {
		bigDocs = append(bigDocs, map[string]any{"_id": r.UUID(), "x": b, "a": uint64(b), "arr": []any{float64(b)}},
			map[string]any{"_id": r.UUID(), "x": float64(b), "a": b + int64(i), "arr": []any{b}})
	}
	s.Insert("k", bigDocs, false)
	for k := 0; k < 9 && !s.failed; k++ {
		n := int64(r.Range(-3, 12))
		if k >= 6 {
			n = bigs[k-6]
		}
		ops := []model.OpKind{model.OpEq, model.OpNeq, model.OpGt, model.OpGtEq, model.OpLt, model.OpLtEq}
		op := gen.Pick(r, ops)
		field := gen.Pick(r, []string{"x", "a"})
		var base string
		for i, g := range goKinds(n) {
			forms := []*model.Crit{
				{Op: op, Field: field, Arg: model.Operand{Val: n, Go: g}},
				{Op: model.OpIn, Field: field, Args: []model.Operand{{Val: n, Go: g}, {Val: "zz"}}},
				{Op: model.OpContains, Field: "arr", Args: []model.Operand{{Val: n, Go: g}}},
				{Op: model.OpEq, Field: "arr", Arg: model.Operand{Val: []any{n}, Go: []any{g}}},
				{Op: model.OpEq, Field: "obj", Arg: model.Operand{Val: map[string]any{"a": n}, Go: map[string]any{"a": g}}},
			}
			var sig []string
			for _, f := range forms {
				ids, ok := find(f)
				if !ok {
					return
				}
				sig = append(sig, ids)
			}
			all := strings.Join(sig, "|")
			c.Eval(1)
			if i == 0 {
				base = all
			} else if all != base {
				s.viol("criteria-db:literal-kind", "literal %d supplied as %T selects different documents than as int64 (op %s on %s, indexes %v)", n, g, op, field, mc.IndexList())
				return
			}
			c.Cell("literal|%T|%s|idx=%v", g, op, mc.Indexes[field])
		}
	}
	// field references: Field(name) and "$name" must behave identically, to present, nil and absent fields
	for k := 0; k < 8 && !s.failed; k++ {
		ops := []model.OpKind{model.OpEq, model.OpNeq, model.OpGt, model.OpGtEq, model.OpLt, model.OpLtEq}
		op := gen.Pick(r, ops)
		f := gen.Pick(r, []string{"x", "a"})
		ref := gen.Pick(r, []string{"a", "x", "b", "nope", "n.a"})
		l, ok := find(&model.Crit{Op: op, Field: f, Arg: model.RefF(ref)})
		if !ok {
			return
		}
		rr, ok := find(&model.Crit{Op: op, Field: f, Arg: model.RefD(ref)})
		if !ok {
			return
		}
		l2, ok := find(&model.Crit{Op: model.OpIn, Field: f, Args: []model.Operand{model.RefF(ref)}})
		if !ok {
			return
		}
		r2, ok := find(&model.Crit{Op: model.OpIn, Field: f, Args: []model.Operand{model.RefD(ref)}})
		if !ok {
			return
		}
		c.Eval(2)
		if l != rr || l2 != r2 {
			s.viol("criteria-db:field-reference", "Field(%q) and \"$%s\" operands select different documents (op %s on %s)", ref, ref, op, f)
			return
		}
		c.Cell("fieldref|%s|%s|idx=%v", op, ref, mc.Indexes[f])
	}
	if !s.failed {
		c.Sample(map[string]any{"backend": backend, "documents": len(mc.Docs), "indexes": mc.IndexList(), "history_tail": fmt.Sprint(head(c.Hist, 6))})
	}
}
