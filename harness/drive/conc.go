package drive

import (
	"errors"
	"fmt"
	"os"
	"path/filepath"
	"runtime"
	"sort"
	"strconv"
	"strings"
	"sync"
	"sync/atomic"
	"time"

	"github.com/anishathalye/porcupine"
	badger "github.com/dgraph-io/badger/v4"
	"github.com/ostafen/clover/v2/document"
	"github.com/ostafen/clover/v2/query"

	"verif/harness/core"
	"verif/harness/gen"
	"verif/harness/model"
	"verif/harness/mon"
)

// ---- the sequential model of one collection, for porcupine --------------------

type cdoc struct {
	g, p, b int64
	tag     string
	c       int64 // counter, only ever changed by read-modify-write increments
}

type cstate struct {
	docs map[string]cdoc
	idx  map[string]bool
}

func (s *cstate) String() string {
	ids := make([]string, 0, len(s.docs))
	for id := range s.docs {
		ids = append(ids, id)
	}
	sort.Strings(ids)
	var b strings.Builder
	b.WriteString("idx:")
	b.WriteString(strings.Join(keys(s.idx), ","))
	b.WriteString("|")
	for _, id := range ids {
		d := s.docs[id]
		b.WriteString(docLine(id, d))
	}
	return b.String()
}

func parseState(str string) *cstate {
	s := &cstate{docs: map[string]cdoc{}, idx: map[string]bool{}}
	parts := strings.SplitN(str, "|", 2)
	if f := strings.TrimPrefix(parts[0], "idx:"); f != "" {
		for _, x := range strings.Split(f, ",") {
			s.idx[x] = true
		}
	}
	if len(parts) > 1 {
		for _, rec := range strings.Split(parts[1], ";") {
			if rec == "" {
				continue
			}
			i := strings.IndexByte(rec, ':')
			fs := strings.SplitN(rec[i+1:], ",", 5)
			g, _ := strconv.ParseInt(fs[0], 10, 64)
			p, _ := strconv.ParseInt(fs[1], 10, 64)
			b, _ := strconv.ParseInt(fs[2], 10, 64)
			cnt, _ := strconv.ParseInt(fs[3], 10, 64)
			s.docs[rec[:i]] = cdoc{g: g, p: p, b: b, c: cnt, tag: fs[4]}
		}
	}
	return s
}

type cop struct {
	Kind  string // insert, update, replace, delete, bulkupdate, bulkdelete, createindex, dropindex, findall, count, findbyid, listindexes, countgroup
	IDs   []string
	G     int64
	Val   int64 // new p or b
	Tag   string
	Field string
}

func (o cop) String() string {
	switch o.Kind {
	case "insert":
		return fmt.Sprintf("Insert(%d docs tag=%s g=%d p=%d)", len(o.IDs), o.Tag, o.G, o.Val)
	case "update":
		return fmt.Sprintf("UpdateById(%s, p=%d)", short(o.IDs[0]), o.Val)
	case "incr":
		return fmt.Sprintf("UpdateById(%s, c=c+1)", short(o.IDs[0]))
	case "replace":
		return fmt.Sprintf("ReplaceById(%s, g=%d tag=%s p=%d)", short(o.IDs[0]), o.G, o.Tag, o.Val)
	case "delete":
		return fmt.Sprintf("DeleteById(%s)", short(o.IDs[0]))
	case "bulkupdate":
		return fmt.Sprintf("Update(g==%d, b=%d)", o.G, o.Val)
	case "bulkdelete":
		return fmt.Sprintf("Delete(g==%d)", o.G)
	case "bulkdouble":
		return fmt.Sprintf("UpdateFunc(c<%d sorted, c=2c+1)", o.Val)
	case "createindex", "dropindex":
		return fmt.Sprintf("%s(%s)", o.Kind, o.Field)
	case "findbyid":
		return fmt.Sprintf("FindById(%s)", short(o.IDs[0]))
	case "countgroup":
		return fmt.Sprintf("Count(g==%d)", o.G)
	case "countlike":
		return fmt.Sprintf("Count(tag like ^%s)", o.Tag)
	}
	return o.Kind
}

func short(id string) string {
	if len(id) > 8 {
		return id[:8]
	}
	return id
}

type cout struct {
	Class string // ok, conflict, or an error class
	Snap  string // canonical rendering of what a read returned
}

func docLine(id string, d cdoc) string {
	return fmt.Sprintf("%s:%d,%d,%d,%d,%s;", id, d.g, d.p, d.b, d.c, d.tag)
}

// cstep is the sequential specification.
func cstep(state, input, output interface{}) (bool, interface{}) {
	st := state.(string)
	in := input.(cop)
	out := output.(cout)
	if out.Class == "conflict" {
		// an operation rejected by the store must have had no effect
		return true, st
	}
	s := parseState(st)
	switch in.Kind {
	case "insert":
		dup := false
		for _, id := range in.IDs {
			if _, ok := s.docs[id]; ok {
				dup = true
			}
		}
		if dup {
			return out.Class == EDup, st
		}
		if out.Class != OK {
			return false, st
		}
		for _, id := range in.IDs {
			s.docs[id] = cdoc{g: in.G, p: in.Val, b: -1, tag: in.Tag}
		}
		return true, s.String()
	case "incr":
		d, ok := s.docs[in.IDs[0]]
		if !ok {
			return out.Class == EDocNo, st
		}
		if out.Class != OK {
			return false, st
		}
		d.c++
		s.docs[in.IDs[0]] = d
		return true, s.String()
	case "update":
		d, ok := s.docs[in.IDs[0]]
		if !ok {
			return out.Class == EDocNo, st
		}
		if out.Class != OK {
			return false, st
		}
		d.p = in.Val
		s.docs[in.IDs[0]] = d
		return true, s.String()
	case "replace":
		_, ok := s.docs[in.IDs[0]]
		if !ok {
			return out.Class == EDocNo, st
		}
		if out.Class != OK {
			return false, st
		}
		s.docs[in.IDs[0]] = cdoc{g: in.G, p: in.Val, b: -1, tag: in.Tag}
		return true, s.String()
	case "delete":
		if out.Class != OK && out.Class != EDocNo {
			return false, st
		}
		if _, ok := s.docs[in.IDs[0]]; !ok {
			return true, st
		}
		if out.Class != OK {
			return false, st
		}
		delete(s.docs, in.IDs[0])
		return true, s.String()
	case "bulkupdate":
		if out.Class != OK {
			return false, st
		}
		for id, d := range s.docs {
			if d.g == in.G {
				d.b = in.Val
				s.docs[id] = d
			}
		}
		return true, s.String()
	case "bulkdelete":
		if out.Class != OK {
			return false, st
		}
		for id, d := range s.docs {
			if d.g == in.G {
				delete(s.docs, id)
			}
		}
		return true, s.String()
	case "bulkdouble":
		if out.Class != OK {
			return false, st
		}
		for id, d := range s.docs {
			if d.c < in.Val {
				d.c = 2*d.c + 1
				s.docs[id] = d
			}
		}
		return true, s.String()
	case "createindex":
		if s.idx[in.Field] {
			return out.Class == EIdxYes, st
		}
		if out.Class != OK {
			return false, st
		}
		s.idx[in.Field] = true
		return true, s.String()
	case "dropindex":
		if !s.idx[in.Field] {
			return out.Class == EIdxNo, st
		}
		if out.Class != OK {
			return false, st
		}
		delete(s.idx, in.Field)
		return true, s.String()
	case "findall":
		if out.Class != OK {
			return false, st
		}
		i := strings.IndexByte(st, '|')
		return out.Snap == st[i+1:], st
	case "count":
		return out.Class == OK && out.Snap == strconv.Itoa(len(s.docs)), st
	case "countgroup":
		n := 0
		for _, d := range s.docs {
			if d.g == in.G {
				n++
			}
		}
		return out.Class == OK && out.Snap == strconv.Itoa(n), st
	case "countlike":
		n := 0
		for _, d := range s.docs {
			if strings.HasPrefix(d.tag, in.Tag) {
				n++
			}
		}
		return out.Class == OK && out.Snap == strconv.Itoa(n), st
	case "findbyid":
		d, ok := s.docs[in.IDs[0]]
		if !ok {
			return out.Class == OK && out.Snap == "", st
		}
		return out.Class == OK && out.Snap == docLine(in.IDs[0], d), st
	case "listindexes":
		return out.Class == OK && out.Snap == strings.Join(keys(s.idx), ","), st
	}
	return false, st
}

var concModel = porcupine.Model{
	Init: func() interface{} { return "idx:|" },
	Step: cstep,
	DescribeOperation: func(in, out interface{}) string {
		o := out.(cout)
		s := o.Snap
		if len(s) > 60 {
			s = s[:60] + "..."
		}
		return fmt.Sprintf("%s -> %s %s", in.(cop), o.Class, s)
	},
	DescribeState: func(s interface{}) string { return s.(string) },
}

// ---- the workload -----------------------------------------------------------------

type idInfo struct {
	id    string
	g     int64
	tag   string
	alone bool // inserted in a batch of one
}

type concRun struct {
	c          *core.Ctx
	h          *Handle
	clock      int64
	mu         sync.Mutex
	ops        []porcupine.Operation
	known      []idInfo // ids whose insert has returned
	uniq       int64
	qBase      *query.Query   // shared on purpose by all goroutines
	cBase      query.Criteria // shared on purpose
	invErr     atomic.Value
	nConflicts int64
	hotIDs     []string // a few caller-supplied ids several clients try to insert
}

func regexpQuote(s string) string {
	var b strings.Builder
	for _, ch := range s {
		if strings.ContainsRune(`\.+*?()|[]{}^$`, ch) {
			b.WriteByte('\\')
		}
		b.WriteRune(ch)
	}
	return b.String()
}

func (cr *concRun) tick() int64 { return atomic.AddInt64(&cr.clock, 1) }

func (cr *concRun) nextVal() int64 { return atomic.AddInt64(&cr.uniq, 1) }

func classifyConc(err error) string {
	if err == nil {
		return OK
	}
	if errors.Is(err, badger.ErrConflict) {
		return "conflict"
	}
	return Classify(err)
}

func docToC(d *document.Document) (string, cdoc) {
	g, _ := d.Get("g").(int64)
	p, _ := d.Get("p").(int64)
	b, _ := d.Get("b").(int64)
	tag, _ := d.Get("tag").(string)
	cnt, _ := d.Get("c").(int64)
	return d.ObjectId(), cdoc{g: g, p: p, b: b, c: cnt, tag: tag}
}

func mkConcDoc(id string, d cdoc) *document.Document {
	doc := document.NewDocument()
	doc.Set("_id", id)
	doc.Set("g", d.g)
	doc.Set("p", d.p)
	doc.Set("b", d.b)
	doc.Set("tag", d.tag)
	doc.Set("c", d.c)
	return doc
}

// tagSize: a tag is "c<client>-<seq>-n<size>"
func tagSize(tag string) int {
	i := strings.LastIndex(tag, "-n")
	n, _ := strconv.Atoi(tag[i+2:])
	return n
}

// checkSnapshot runs the atomic-visibility invariants on one FindAll snapshot.
func (cr *concRun) checkSnapshot(docs []*document.Document) {
	byTag := map[string]int{}
	groupB := map[int64]int64{}
	for _, d := range docs {
		_, cd := docToC(d)
		byTag[cd.tag]++
		if cd.b != -1 {
			if prev, ok := groupB[cd.g]; ok && prev != cd.b {
				cr.invErr.Store(fmt.Sprintf("a reader saw group %d partly bulk-updated: documents carry bulk versions %d and %d in one snapshot", cd.g, prev, cd.b))
			}
			groupB[cd.g] = cd.b
		}
	}
	for tag, n := range byTag {
		if want := tagSize(tag); n != want {
			cr.invErr.Store(fmt.Sprintf("a reader saw %d of the %d documents of insert batch %s (torn insert or torn bulk delete)", n, want, tag))
		}
	}
	cr.c.Count("snapshot_invariant_checks", 1)
}

func (cr *concRun) record(client int, in cop, call int64, out cout) {
	ret := cr.tick()
	cr.mu.Lock()
	cr.ops = append(cr.ops, porcupine.Operation{ClientId: client, Input: in, Call: call, Output: out, Return: ret})
	cr.mu.Unlock()
}

func (cr *concRun) pickKnown(r *gen.Rng, alone bool) (idInfo, bool) {
	cr.mu.Lock()
	defer cr.mu.Unlock()
	var cand []idInfo
	for _, k := range cr.known {
		if !alone || k.alone {
			cand = append(cand, k)
		}
	}
	if len(cand) == 0 {
		return idInfo{}, false
	}
	if len(cand) > 3 && r.P(60) {
		// contention: prefer the few most recently inserted documents
		return cand[len(cand)-1-r.Intn(3)], true
	}
	return cand[r.Intn(len(cand))], true
}

func (cr *concRun) client(id int, r *gen.Rng, nops int, groups int64, wg *sync.WaitGroup) {
	defer wg.Done()
	db := cr.h.DB
	seq := 0
	for i := 0; i < nops; i++ {
		if cr.invErr.Load() != nil {
			return
		}
		core.Tick()
		var in cop
		var out cout
		switch r.Weighted([]int{18, 8, 6, 5, 10, 4, 3, 2, 18, 6, 8, 3, 5, 12, 6, 6, 0, 7}) {
		case 17: // read-modify-write over a SORTED selection that depends on the very value it changes: c < t  =>  c = 2c+1.
			// It does not commute with the point increments, so an implementation that selects in one snapshot and
			// writes in another produces values no serial order explains.
			in = cop{Kind: "bulkdouble", Val: int64(1 + r.Intn(3))}
			q := cr.qBase.Where(query.Field("c").Lt(in.Val))
			if r.Bool() {
				q = q.Sort(query.SortOption{Field: "c", Direction: 1})
			} else {
				q = q.Sort(query.SortOption{Field: "p", Direction: -1}, query.SortOption{Field: "_id", Direction: 1})
			}
			call := cr.tick()
			err := Do(func() error {
				return db.UpdateFunc(q, func(d *document.Document) *document.Document {
					n := d.Copy()
					cnt, _ := d.Get("c").(int64)
					n.Set("c", 2*cnt+1)
					return n
				})
			})
			out = cout{Class: classifyConc(err)}
			cr.record(id, in, call, out)
			cr.after(err, in)
			continue
		case 0: // insert batch
			n := r.Range(1, 5)
			if r.P(35) {
				n = 1
			}
			seq++
			in = cop{Kind: "insert", G: int64(r.Intn(int(groups))), Val: cr.nextVal(), Tag: fmt.Sprintf("c%d-%d-n%d", id, seq, n)}
			docs := make([]*document.Document, n)
			for k := range docs {
				uid := r.UUID()
				in.IDs = append(in.IDs, uid)
				docs[k] = mkConcDoc(uid, cdoc{g: in.G, p: in.Val, b: -1, tag: in.Tag})
			}
			call := cr.tick()
			err := Do(func() error { return db.Insert("k", docs...) })
			out = cout{Class: classifyConc(err)}
			cr.record(id, in, call, out)
			if err == nil {
				cr.mu.Lock()
				for _, uid := range in.IDs {
					cr.known = append(cr.known, idInfo{uid, in.G, in.Tag, n == 1})
				}
				cr.mu.Unlock()
			}
			cr.after(err, in)
			continue
		case 1: // point update
			k, ok := cr.pickKnown(r, false)
			if !ok {
				continue
			}
			in = cop{Kind: "update", IDs: []string{k.id}, Val: cr.nextVal()}
			inPlace := r.Bool()
			call := cr.tick()
			err := Do(func() error {
				return db.UpdateById("k", k.id, func(d *document.Document) *document.Document {
					if inPlace {
						d.Set("p", in.Val)
						return d
					}
					n := d.Copy()
					n.Set("p", in.Val)
					return n
				})
			})
			out = cout{Class: classifyConc(err)}
			cr.record(id, in, call, out)
			cr.after(err, in)
			continue
		case 2: // replace
			k, ok := cr.pickKnown(r, false)
			if !ok {
				continue
			}
			in = cop{Kind: "replace", IDs: []string{k.id}, G: k.g, Tag: k.tag, Val: cr.nextVal()}
			call := cr.tick()
			err := Do(func() error {
				return db.ReplaceById("k", k.id, mkConcDoc(k.id, cdoc{g: k.g, p: in.Val, b: -1, tag: k.tag}))
			})
			out = cout{Class: classifyConc(err)}
			cr.record(id, in, call, out)
			cr.after(err, in)
			continue
		case 3: // point delete: only documents inserted alone
			k, ok := cr.pickKnown(r, true)
			if !ok {
				continue
			}
			in = cop{Kind: "delete", IDs: []string{k.id}}
			call := cr.tick()
			err := Do(func() error { return db.DeleteById("k", k.id) })
			out = cout{Class: classifyConc(err)}
			cr.record(id, in, call, out)
			cr.after(err, in)
			continue
		case 4: // bulk update of a group
			in = cop{Kind: "bulkupdate", G: int64(r.Intn(int(groups))), Val: cr.nextVal()}
			q := cr.qBase.Where(query.Field("g").Eq(in.G))
			asFunc := r.Bool()
			call := cr.tick()
			err := Do(func() error {
				if asFunc {
					return db.UpdateFunc(q, func(d *document.Document) *document.Document {
						n := d.Copy()
						n.Set("b", in.Val)
						return n
					})
				}
				return db.Update(q, map[string]interface{}{"b": in.Val})
			})
			out = cout{Class: classifyConc(err)}
			cr.record(id, in, call, out)
			cr.after(err, in)
			continue
		case 5: // bulk delete of a group
			in = cop{Kind: "bulkdelete", G: int64(r.Intn(int(groups)))}
			q := cr.qBase.Where(query.Field("g").Eq(in.G))
			call := cr.tick()
			err := Do(func() error { return db.Delete(q) })
			out = cout{Class: classifyConc(err)}
			cr.record(id, in, call, out)
			cr.after(err, in)
			continue
		case 6:
			in = cop{Kind: "createindex", Field: gen.Pick(r, []string{"g", "p", "b"})}
			call := cr.tick()
			err := Do(func() error { return db.CreateIndex("k", in.Field) })
			out = cout{Class: classifyConc(err)}
			cr.record(id, in, call, out)
			cr.after(err, in)
			continue
		case 7:
			in = cop{Kind: "dropindex", Field: gen.Pick(r, []string{"g", "p", "b"})}
			call := cr.tick()
			err := Do(func() error { return db.DropIndex("k", in.Field) })
			out = cout{Class: classifyConc(err)}
			cr.record(id, in, call, out)
			cr.after(err, in)
			continue
		case 8: // full snapshot
			in = cop{Kind: "findall"}
			var docs []*document.Document
			q := cr.qBase.Sort() // by _id; derived from the shared query object
			if r.P(30) {
				q = cr.qBase.Where(cr.cBase).Sort()
			}
			call := cr.tick()
			err := Do(func() (e error) { docs, e = db.FindAll(q); return })
			out = cout{Class: classifyConc(err)}
			if err == nil {
				var b strings.Builder
				for _, d := range docs {
					uid, cd := docToC(d)
					b.WriteString(docLine(uid, cd))
				}
				out.Snap = b.String()
				cr.checkSnapshot(docs)
			}
			cr.record(id, in, call, out)
			cr.after(err, in)
			continue
		case 9:
			in = cop{Kind: "count"}
			var n int
			call := cr.tick()
			err := Do(func() (e error) { n, e = db.Count(cr.qBase); return })
			out = cout{Class: classifyConc(err), Snap: strconv.Itoa(n)}
			cr.record(id, in, call, out)
			cr.after(err, in)
			continue
		case 10:
			k, ok := cr.pickKnown(r, false)
			if !ok {
				continue
			}
			in = cop{Kind: "findbyid", IDs: []string{k.id}}
			var d *document.Document
			call := cr.tick()
			err := Do(func() (e error) { d, e = db.FindById("k", k.id); return })
			out = cout{Class: classifyConc(err)}
			if err == nil && d != nil {
				uid, cd := docToC(d)
				out.Snap = docLine(uid, cd)
			}
			cr.record(id, in, call, out)
			cr.after(err, in)
			continue
		case 11:
			in = cop{Kind: "listindexes"}
			call := cr.tick()
			var fs []string
			err := Do(func() error {
				infos, e := db.ListIndexes("k")
				for _, x := range infos {
					fs = append(fs, x.Field)
				}
				return e
			})
			sort.Strings(fs)
			out = cout{Class: classifyConc(err), Snap: strings.Join(fs, ",")}
			cr.record(id, in, call, out)
			cr.after(err, in)
			continue
		case 13: // read-modify-write increment: lost updates are not linearizable
			k, ok := cr.pickKnown(r, false)
			if !ok {
				continue
			}
			in = cop{Kind: "incr", IDs: []string{k.id}}
			call := cr.tick()
			err := Do(func() error {
				return db.UpdateById("k", k.id, func(d *document.Document) *document.Document {
					n := d.Copy()
					cnt, _ := d.Get("c").(int64)
					n.Set("c", cnt+1)
					return n
				})
			})
			out = cout{Class: classifyConc(err)}
			cr.record(id, in, call, out)
			cr.after(err, in)
			continue
		case 14: // a regular expression nobody has used before in this process (criteria evaluation shares no state... or should not)
			pfx := fmt.Sprintf("c%d-", r.Intn(8))
			if k, ok := cr.pickKnown(r, false); ok && r.Bool() {
				pfx = k.tag[:strings.LastIndex(k.tag, "-n")]
			}
			in = cop{Kind: "countlike", Tag: pfx}
			var n int
			// the pattern text is unique (an always-true alternative carrying a fresh number) so that it has never been compiled
			pat := fmt.Sprintf("^%s|^never-%d-%d$", regexpQuote(pfx), id, cr.nextVal())
			q := cr.qBase.Where(query.Field("tag").Like(pat))
			call := cr.tick()
			err := Do(func() (e error) { n, e = db.Count(q); return })
			out = cout{Class: classifyConc(err), Snap: strconv.Itoa(n)}
			cr.record(id, in, call, out)
			cr.after(err, in)
			continue
		case 15: // insert of ONE document under a contended, caller-supplied id
			hot := r.Intn(len(cr.hotIDs))
			uid := cr.hotIDs[hot]
			seq++
			// the group of a contended id is fixed: no point write of these histories ever moves a document from one
			// group to another (that interleaving is driven on purpose, once, by the conc-phantom engine)
			in = cop{Kind: "insert", IDs: []string{uid}, G: int64(hot) % groups, Val: cr.nextVal(), Tag: fmt.Sprintf("c%d-%d-n1", id, seq)}
			call := cr.tick()
			err := Do(func() error { return db.Insert("k", mkConcDoc(uid, cdoc{g: in.G, p: in.Val, b: -1, tag: in.Tag})) })
			out = cout{Class: classifyConc(err)}
			cr.record(id, in, call, out)
			if err == nil {
				cr.mu.Lock()
				cr.known = append(cr.known, idInfo{uid, in.G, in.Tag, true})
				cr.mu.Unlock()
			}
			cr.after(err, in)
			continue
		default: // count of a group through criteria (index plan when g is indexed)
			in = cop{Kind: "countgroup", G: int64(r.Intn(int(groups)))}
			var n int
			q := cr.qBase.Where(query.Field("g").Eq(in.G))
			call := cr.tick()
			err := Do(func() (e error) { n, e = db.Count(q); return })
			out = cout{Class: classifyConc(err), Snap: strconv.Itoa(n)}
			cr.record(id, in, call, out)
			cr.after(err, in)
			continue
		}
	}
}

func (cr *concRun) after(err error, in cop) {
	if pe, ok := IsPanic(err); ok {
		cr.invErr.Store(fmt.Sprintf("PANIC in %s: %v\n%s", in, pe.Val, trim(pe.Stack, 25)))
	}
	if errors.Is(err, badger.ErrConflict) {
		atomic.AddInt64(&cr.nConflicts, 1)
	}
}

// RunConc decides C07 on one concurrent history.
func RunConc(c *core.Ctx) {
	r := c.R
	backend := gen.Pick(r, []string{BBolt, BBolt, BadgerMem, BadgerMem, BadgerDisk, BBoltRaw, BadgerShip, BadgerRaw})
	h, err := Open(c, backend, "")
	if err != nil {
		c.Violate("open-error", "opening %s failed: %v", backend, err)
		return
	}
	defer h.Destroy()
	c.Backend = backend
	if err := h.DB.CreateCollection("k"); err != nil {
		c.Violate("setup", "CreateCollection: %v", err)
		return
	}
	if h.MS != nil {
		h.MS.SetPerturb(mon.Perturb{On: true, Seed: r.U64(), Pct: gen.Pick(r, []int{10, 30, 60})})
	}
	cr := &concRun{c: c, h: h, qBase: query.NewQuery("k"), cBase: query.Field("g").GtEq(int64(0))}
	for i := 0; i < 3; i++ {
		cr.hotIDs = append(cr.hotIDs, r.UUID())
	}
	nclients := r.Range(2, 8)
	nops := r.Range(6, 14)
	groups := int64(r.Range(1, 3))
	if r.P(40) {
		h.DB.CreateIndex("k", "g")
		// the model must know about it
		cr.ops = append(cr.ops, porcupine.Operation{ClientId: 0, Input: cop{Kind: "createindex", Field: "g"}, Call: cr.tick(), Output: cout{Class: OK}, Return: cr.tick()})
	}
	var wg sync.WaitGroup
	for i := 0; i < nclients; i++ {
		wg.Add(1)
		go cr.client(i, r.Fork(), nops, groups, &wg)
	}
	wg.Wait()
	if h.MS != nil {
		h.MS.SetPerturb(mon.Perturb{})
	}
	// three reads after everybody has finished: they are part of the history, so the FINAL state - every document,
	// the count kept in the catalog, the index list - must be explained by the acknowledged operations too
	finalReads := func(client int) (string, string, string) {
		var snap, cnt, idx string
		{
			in := cop{Kind: "findall"}
			call := cr.tick()
			var docs []*document.Document
			err := Do(func() (e error) { docs, e = h.DB.FindAll(query.NewQuery("k").Sort()); return })
			out := cout{Class: classifyConc(err)}
			if err == nil {
				var b strings.Builder
				for _, d := range docs {
					uid, cd := docToC(d)
					b.WriteString(docLine(uid, cd))
				}
				out.Snap = b.String()
			}
			snap = out.Class + "|" + out.Snap
			cr.record(client, in, call, out)
		}
		{
			in := cop{Kind: "count"}
			call := cr.tick()
			var n int
			err := Do(func() (e error) { n, e = h.DB.Count(query.NewQuery("k")); return })
			out := cout{Class: classifyConc(err), Snap: strconv.Itoa(n)}
			cnt = out.Class + "|" + out.Snap
			cr.record(client, in, call, out)
		}
		{
			in := cop{Kind: "listindexes"}
			call := cr.tick()
			var fs []string
			err := Do(func() error {
				infos, e := h.DB.ListIndexes("k")
				for _, x := range infos {
					fs = append(fs, x.Field)
				}
				return e
			})
			sort.Strings(fs)
			out := cout{Class: classifyConc(err), Snap: strings.Join(fs, ",")}
			idx = out.Class + "|" + out.Snap
			cr.record(client, in, call, out)
		}
		return snap, cnt, idx
	}
	snap0, cnt0, idx0 := finalReads(nclients)
	if h.Persistent() && r.Bool() {
		// and the same three answers after Close and Open: what was acknowledged survives
		if err := h.Reopen(c); err != nil {
			c.Violate("reopen:error", "close/reopen after a concurrent history failed: %v", err)
			return
		}
		snap1, cnt1, idx1 := finalReads(nclients + 1)
		if snap1 != snap0 || cnt1 != cnt0 || idx1 != idx0 {
			cr.logHistory()
			c.Violate("conc:reopen-changed-state", "after Close and Open on %s the database answers differently than just before: Count %s -> %s, indexes %s -> %s, documents equal: %v", backend, cnt0, cnt1, idx0, idx1, snap0 == snap1)
			return
		}
	}
	if v := cr.invErr.Load(); v != nil {
		msg := v.(string)
		sig := "conc:atomic-visibility"
		if strings.HasPrefix(msg, "PANIC") {
			sig = "conc:panic"
		}
		cr.logHistory()
		c.Violate(sig, "%s on %s (%d clients)", msg, backend, nclients)
		return
	}
	c.Count("conflicts", int(cr.nConflicts))
	c.Count("operations", len(cr.ops))
	// overlap statistics
	overlaps, maxConc := 0, 0
	for i, a := range cr.ops {
		for j, b := range cr.ops {
			if i < j && a.Call < b.Return && b.Call < a.Return {
				overlaps++
				ka, kb := a.Input.(cop).Kind, b.Input.(cop).Kind
				if ka > kb {
					ka, kb = kb, ka
				}
				c.Cell("overlap|%s|%s|%s", ka, kb, backendClass(backend))
			}
		}
	}
	{
		// instantaneous concurrency: sweep over call/return stamps
		type evt struct {
			t int64
			d int
		}
		var evs []evt
		for _, o := range cr.ops {
			evs = append(evs, evt{o.Call, 1}, evt{o.Return, -1})
		}
		sort.Slice(evs, func(i, j int) bool { return evs[i].t < evs[j].t })
		cur := 0
		for _, e := range evs {
			cur += e.d
			if cur > maxConc {
				maxConc = cur
			}
		}
	}
	c.Count("overlapping_pairs", overlaps)
	c.Count(fmt.Sprintf("max_concurrency_%d", maxConc), 1)

	// linearizability
	budget := 12 * time.Second // a time-out is "inconclusive", never a verdict; the quick tier does not wait a minute for one history
	if c.Thorough() {
		budget = 60 * time.Second
	}
	res, info := porcupine.CheckOperationsVerbose(concModel, cr.ops, budget)
	c.Eval(len(cr.ops))
	switch res {
	case porcupine.Ok:
		c.Count("porcupine_ok", 1)
	case porcupine.Unknown:
		c.Count("porcupine_unknown", 1)
		c.Inconclusive("checker_timeout")
	case porcupine.Illegal:
		c.Count("porcupine_illegal", 1)
		cr.logHistory()
		_ = info
		c.Violate("conc:not-linearizable", "concurrent history of %d operations by %d clients on %s has no sequential explanation consistent with real time (porcupine: Illegal); the history is in the replay file", len(cr.ops), nclients, backend)
		return
	}
	// quiescent audit: the final state must be self-consistent
	if n := openTx(h); n != 0 {
		c.Violate("conc:tx-leak", "%d transactions still open at quiescence", n)
		return
	}
	s := NewS(c, h)
	docs, err := h.DB.FindAll(query.NewQuery("k"))
	if err != nil {
		c.Violate("conc:final-read", "FindAll at quiescence: %v", err)
		return
	}
	mc := model.NewColl()
	for _, d := range docs {
		mc.Docs[d.ObjectId()] = model.FromDoc(d)
	}
	infos, _ := h.DB.ListIndexes("k")
	for _, x := range infos {
		mc.Indexes[x.Field] = true
	}
	s.m.Colls["k"] = mc
	s.Audit("concurrent history")
	if !s.failed {
		c.Sample(map[string]any{"backend": backend, "clients": nclients, "operations": len(cr.ops), "overlapping_pairs": overlaps, "max_concurrency": maxConc, "conflicts": cr.nConflicts, "porcupine": fmt.Sprint(res)})
	}
}

func openTx(h *Handle) int {
	if h.MS == nil {
		return 0
	}
	return h.MS.OpenTx()
}

func (cr *concRun) logHistory() {
	ops := append([]porcupine.Operation(nil), cr.ops...)
	sort.Slice(ops, func(i, j int) bool { return ops[i].Call < ops[j].Call })
	for _, o := range ops {
		out := o.Output.(cout)
		snap := out.Snap
		if len(snap) > 300 {
			snap = snap[:300] + "..."
		}
		cr.c.Log("client %d [%d,%d] %s -> %s %s", o.ClientId, o.Call, o.Return, o.Input.(cop), out.Class, snap)
	}
}

// RunConcCatalog: several goroutines race to create the same collection (and
// index) and then insert into it. Exactly one creation may succeed; the others
// must fail with ErrCollectionExist (or a store conflict) without side effects,
// so every acknowledged insert is still counted and the index list is intact.
func RunConcCatalog(c *core.Ctx) {
	r := c.R
	backend := gen.Pick(r, []string{BBolt, BBolt, BadgerMem, BadgerDisk})
	h, err := Open(c, backend, "")
	if err != nil {
		c.Violate("open-error", "opening %s failed: %v", backend, err)
		return
	}
	defer h.Destroy()
	c.Backend = backend
	h.MS.SetPerturb(mon.Perturb{On: true, Seed: r.U64(), Pct: gen.Pick(r, []int{30, 60, 90})})
	n := r.Range(2, 6)
	name := gen.Pick(r, []string{"z", "c", "c:"})
	var wg sync.WaitGroup
	var created, existed, conflicts, otherErr int64
	var inserted int64
	var idxCreated int64
	var panicMsg atomic.Value
	dirSeq++
	impDir := filepath.Join(c.Scratch, fmt.Sprintf("cat%d", dirSeq))
	os.MkdirAll(impDir, 0755)
	defer os.RemoveAll(impDir)
	// readers: a collection that an import creates comes into being together with its documents. A reader asking
	// for one of those documents by id gets "no such collection" or the document - never "collection there,
	// document not" - and never counts fewer documents than the file holds (decided after the run, once it is
	// known which client created the collection)
	importIDs := make([][]string, n)
	var winner int64 = -1
	var phantomMu sync.Mutex
	phantom := map[int]string{} // import client -> what a reader saw
	var stopReaders int32
	var rwg sync.WaitGroup
	var readerOps int64
	for i := 0; i < n; i++ {
		wg.Add(1)
		rr := r.Fork()
		// some clients create the collection by importing a file of three documents
		importFile := ""
		if rr.P(40) {
			importFile = filepath.Join(impDir, fmt.Sprintf("imp%d.json", i))
			importIDs[i] = []string{rr.UUID(), rr.UUID(), rr.UUID()}
			os.WriteFile(importFile, []byte(fmt.Sprintf(`[{"_id":"%s","a":1},{"_id":"%s","a":2},{"_id":"%s","a":3}]`, importIDs[i][0], importIDs[i][1], importIDs[i][2])), 0644)
		}
		i := i
		go func() {
			defer wg.Done()
			for attempt := 0; attempt < 3; attempt++ {
				core.Tick()
				err := Do(func() error {
					if importFile != "" {
						return h.DB.ImportCollection(name, importFile)
					}
					return h.DB.CreateCollection(name)
				})
				if err == nil && importFile != "" {
					atomic.AddInt64(&inserted, 3)
				}
				cls := classifyConc(err)
				if pe, ok := IsPanic(err); ok {
					panicMsg.Store(fmt.Sprintf("%v\n%s", pe.Val, trim(pe.Stack, 20)))
					return
				}
				switch cls {
				case OK:
					atomic.AddInt64(&created, 1)
					atomic.StoreInt64(&winner, int64(i))
				case ECollYes:
					atomic.AddInt64(&existed, 1)
				case "conflict":
					atomic.AddInt64(&conflicts, 1)
					continue
				default:
					atomic.AddInt64(&otherErr, 1)
				}
				break
			}
			// now the collection exists (someone created it, or we did): use it
			for k := 0; k < 4; k++ {
				core.Tick()
				switch rr.Intn(4) {
				case 0:
					if err := Do(func() error { return h.DB.CreateIndex(name, "a") }); err == nil {
						atomic.AddInt64(&idxCreated, 1)
					}
				default:
					d := document.NewDocument()
					d.Set("a", int64(rr.Intn(5)))
					if err := Do(func() error { return h.DB.Insert(name, d) }); err == nil {
						atomic.AddInt64(&inserted, 1)
					}
				}
			}
		}()
	}
	for k := 0; k < 2; k++ {
		rwg.Add(1)
		rr := r.Fork()
		go func() {
			defer rwg.Done()
			for atomic.LoadInt32(&stopReaders) == 0 {
				core.Tick()
				ci := rr.Intn(n)
				if importIDs[ci] == nil {
					runtime.Gosched()
					continue
				}
				atomic.AddInt64(&readerOps, 1)
				if rr.Bool() {
					id := gen.Pick(rr, importIDs[ci])
					d, err := h.DB.FindById(name, id)
					if err == nil && d == nil {
						phantomMu.Lock()
						phantom[ci] = fmt.Sprintf("FindById(%q, %s) returned (nil, nil): the collection without the document", name, short(id))
						phantomMu.Unlock()
					}
				} else {
					cnt, err := h.DB.Count(query.NewQuery(name))
					if err == nil && cnt < 3 {
						phantomMu.Lock()
						phantom[-1] = fmt.Sprintf("Count(%q) = %d: the collection with fewer documents than the file holds", name, cnt)
						phantomMu.Unlock()
					}
				}
			}
		}()
	}
	wg.Wait()
	atomic.StoreInt32(&stopReaders, 1)
	rwg.Wait()
	h.MS.SetPerturb(mon.Perturb{})
	c.Eval(n + int(readerOps))
	if v := panicMsg.Load(); v != nil {
		c.Violate("conc:panic", "CreateCollection panicked under concurrency: %s", v)
		return
	}
	if w := int(atomic.LoadInt64(&winner)); created == 1 && w >= 0 && importIDs[w] != nil {
		// the collection was created by an import: no reader may have seen it without (all of) that file's documents.
		// (phantom[ci] is only evidence when ci is the winner: a Count below 3 or a missing document of ANOTHER
		// client's file is what every reader sees once the winner's collection exists.)
		what, saw := phantom[w]
		if !saw {
			what, saw = phantom[-1] // a count below three: evidence whichever import created the collection
		}
		if saw {
			c.Violate("conc:import-not-atomic-to-readers", "ImportCollection(%q) by client %d created the collection on %s, but a concurrent reader saw %s", name, w, backend, what)
			return
		}
	}
	if created != 1 || otherErr != 0 {
		c.Violate("conc:catalog-create", "%d goroutines created collection %q concurrently on %s: %d succeeded (want exactly 1), %d got ErrCollectionExist, %d conflicts, %d other errors", n, name, backend, created, existed, conflicts, otherErr)
		return
	}
	cnt, err := h.DB.Count(query.NewQuery(name))
	if err != nil {
		c.Violate("conc:catalog-count", "Count: %v", err)
		return
	}
	docs, _ := h.DB.FindAll(query.NewQuery(name))
	if int64(cnt) != inserted || int64(len(docs)) != inserted {
		c.Violate("conc:catalog-lost-effect", "after concurrent CreateCollection(%q) on %s: %d inserts were acknowledged but Count = %d and FindAll returns %d documents (a late creation overwrote the catalog record?)", name, backend, inserted, cnt, len(docs))
		return
	}
	has, _ := h.DB.HasIndex(name, "a")
	if (idxCreated > 0) != has || idxCreated > 1 {
		c.Violate("conc:catalog-index", "%d CreateIndex calls succeeded but HasIndex = %v", idxCreated, has)
		return
	}
	s := NewS(c, h)
	mc := model.NewColl()
	for _, d := range docs {
		mc.Docs[d.ObjectId()] = model.FromDoc(d)
	}
	if has {
		mc.Indexes["a"] = true
	}
	s.m.Colls[name] = mc
	s.Audit("concurrent catalog operations")
	c.Cell("conc-catalog|%s|clients%d|conflicts=%v", backendClass(backend), n, conflicts > 0)
}

// RunConcDisjoint: two goroutines run bulk operations, each on its OWN collection of one handle. Operations on
// different collections commute, so each collection must end exactly as if its goroutine had run alone; any
// state shared through the handle (buffers, caches) shows up as foreign or skipped documents.
func RunConcDisjoint(c *core.Ctx) {
	r := c.R
	backend := gen.Pick(r, []string{BadgerMem, BadgerMem, BadgerDisk, BBolt})
	h, err := Open(c, backend, "")
	if err != nil {
		c.Violate("open-error", "opening %s failed: %v", backend, err)
		return
	}
	defer h.Destroy()
	c.Backend = backend
	h.MS.SetPerturb(mon.Perturb{On: true, Seed: r.U64(), Pct: gen.Pick(r, []int{20, 50})})
	names := []string{"left", "right"}
	sizes := []int{r.Range(20, 200), r.Range(20, 200)}
	models := []*model.Coll{model.NewColl(), model.NewColl()}
	for k, name := range names {
		if err := h.DB.CreateCollection(name); err != nil {
			c.Violate("setup", "%v", err)
			return
		}
		docs := make([]*document.Document, sizes[k])
		for i := range docs {
			m := map[string]any{"_id": r.UUID(), "g": int64(i % 4), "v": int64(0), "side": name}
			models[k].Docs[m["_id"].(string)] = m
			docs[i] = model.NewDoc(m)
		}
		if err := h.DB.Insert(name, docs...); err != nil {
			c.Violate("setup", "%v", err)
			return
		}
		if r.Bool() {
			h.DB.CreateIndex(name, "g")
			models[k].Indexes["g"] = true
		}
	}
	// one bulk operation beforehand, so that anything the handle keeps between operations has been used once
	h.DB.Update(query.NewQuery("left").Where(query.Field("g").Eq(int64(0))), map[string]interface{}{"v": int64(-1)})
	for _, d := range models[0].Docs {
		if d["g"] == int64(0) {
			d["v"] = int64(-1)
		}
	}
	rounds := r.Range(3, 8)
	var wg sync.WaitGroup
	var panicMsg atomic.Value
	var conflicts int64
	for k := range names {
		wg.Add(1)
		rr := r.Fork()
		k := k
		go func() {
			defer wg.Done()
			name := names[k]
			mc := models[k]
			for i := 0; i < rounds; i++ {
				core.Tick()
				g := int64(rr.Intn(4))
				val := int64(100*(k+1) + i)
				del := rr.P(15)
				for attempt := 0; attempt < 5; attempt++ {
					var err error
					q := query.NewQuery(name).Where(query.Field("g").Eq(g))
					if del {
						err = Do(func() error { return h.DB.Delete(q) })
					} else {
						err = Do(func() error {
							return h.DB.UpdateFunc(q, func(d *document.Document) *document.Document {
								runtime.Gosched()
								n := d.Copy()
								n.Set("v", val)
								return n
							})
						})
					}
					if pe, ok := IsPanic(err); ok {
						panicMsg.Store(fmt.Sprintf("%v\n%s", pe.Val, trim(pe.Stack, 20)))
						return
					}
					if errors.Is(err, badger.ErrConflict) {
						atomic.AddInt64(&conflicts, 1)
						continue
					}
					if err != nil {
						panicMsg.Store(fmt.Sprintf("bulk operation on %q failed: %v", name, err))
						return
					}
					for id, d := range mc.Docs {
						if d["g"] == g {
							if del {
								delete(mc.Docs, id)
							} else {
								d["v"] = val
							}
						}
					}
					break
				}
			}
		}()
	}
	wg.Wait()
	h.MS.SetPerturb(mon.Perturb{})
	c.Eval(2 * rounds)
	if v := panicMsg.Load(); v != nil {
		c.Violate("conc:disjoint-error", "%s", v)
		return
	}
	s := NewS(c, h)
	for k, name := range names {
		s.m.Colls[name] = models[k]
	}
	for _, name := range names {
		if !s.CompareCollection(name, "conc:disjoint-collections", "concurrent bulk operations on two different collections") {
			return
		}
	}
	s.Audit("concurrent bulk operations on disjoint collections")
	if !s.failed {
		c.Cell("conc-disjoint|%s|rounds%d|conflicts=%v", backendClass(backend), rounds, conflicts > 0)
	}
}

// RunConcDDL: readers query an indexed field while one goroutine drops and re-creates the index. The documents
// never change, so every answer - during the DDL and after it - must be exactly the matching documents, whatever
// the index is doing (index transparency under concurrency); anything a handle remembers about the indexes of a
// collection must not outlive the DDL that invalidates it.
func RunConcDDL(c *core.Ctx) {
	r := c.R
	backend := gen.Pick(r, []string{BBolt, BBolt, BadgerMem, BadgerDisk, BadgerRaw, BadgerShip})
	h, err := Open(c, backend, "")
	if err != nil {
		c.Violate("open-error", "opening %s failed: %v", backend, err)
		return
	}
	defer h.Destroy()
	c.Backend = backend
	const name = "d"
	n := r.Range(12, 60)
	mc := model.NewColl()
	docs := make([]*document.Document, n)
	for i := range docs {
		m := map[string]any{"_id": r.UUID(), "x": int64(i), "g": int64(i % 4)}
		mc.Docs[m["_id"].(string)] = m
		docs[i] = model.NewDoc(m)
	}
	if err := h.DB.CreateCollection(name); err != nil {
		c.Violate("setup", "%v", err)
		return
	}
	if err := h.DB.Insert(name, docs...); err != nil {
		c.Violate("setup", "%v", err)
		return
	}
	indexed := r.Bool()
	if indexed {
		if err := h.DB.CreateIndex(name, "x"); err != nil {
			c.Violate("setup", "%v", err)
			return
		}
	}
	// what a reader checks: x >= k has n-k matching documents, in x order when sorted
	check := func(k int, sorted bool, got []*document.Document, err error) string {
		if err != nil {
			return fmt.Sprintf("query x >= %d failed: %v", k, err)
		}
		if len(got) != n-k {
			return fmt.Sprintf("query x >= %d (sorted=%v) returned %d documents, %d match", k, sorted, len(got), n-k)
		}
		seen := map[int64]bool{}
		for i, d := range got {
			x, _ := d.Get("x").(int64)
			if x < int64(k) || seen[x] {
				return fmt.Sprintf("query x >= %d returned x=%d (non-matching or twice)", k, x)
			}
			seen[x] = true
			if sorted && x != int64(k+i) {
				return fmt.Sprintf("query x >= %d sorted by x has x=%d at position %d", k, x, i)
			}
		}
		return ""
	}
	if h.MS != nil {
		h.MS.SetPerturb(mon.Perturb{On: true, Seed: r.U64(), Pct: gen.Pick(r, []int{30, 60}), AfterGetUs: gen.Pick(r, []int{200, 800, 2500})})
	}
	var stop int32
	var bad atomic.Value
	var reads int64
	var wg sync.WaitGroup
	readers := r.Range(2, 5)
	// half of the cases: a writer keeps inserting documents whose x lies below every bound the readers use (their
	// answers do not change), so that on badger the DDL transaction and the inserts conflict: a refused DDL has no
	// effect at all and is simply tried again
	var inserted []map[string]any
	var insMu sync.Mutex
	var ddlConflicts int64
	if r.Bool() {
		wg.Add(1)
		rr := r.Fork()
		go func() {
			defer wg.Done()
			for i := 0; atomic.LoadInt32(&stop) == 0 && i < 400; i++ {
				core.Tick()
				m := map[string]any{"_id": rr.UUID(), "x": int64(-1 - i), "g": int64(9)}
				err := Do(func() error { return h.DB.Insert(name, model.NewDoc(m)) })
				if err == nil {
					insMu.Lock()
					inserted = append(inserted, m)
					insMu.Unlock()
				} else if !errors.Is(err, badger.ErrConflict) {
					bad.CompareAndSwap(nil, fmt.Sprintf("Insert next to index DDL failed: %v", err))
					return
				}
			}
		}()
	}
	for i := 0; i < readers; i++ {
		wg.Add(1)
		rr := r.Fork()
		go func() {
			defer wg.Done()
			for atomic.LoadInt32(&stop) == 0 {
				core.Tick()
				k := rr.Intn(n)
				sorted := rr.Bool()
				q := query.NewQuery(name).Where(query.Field("x").GtEq(int64(k)))
				if sorted {
					q = q.Sort(query.SortOption{Field: "x", Direction: 1})
				}
				var got []*document.Document
				err := Do(func() error {
					var e error
					got, e = h.DB.FindAll(q)
					return e
				})
				atomic.AddInt64(&reads, 1)
				if why := check(k, sorted, got, err); why != "" {
					bad.CompareAndSwap(nil, "while the index on x was being dropped / created: "+why)
					return
				}
			}
		}()
	}
	cycles := r.Range(2, 7)
	ddlErr := ""
	for i := 0; i < cycles && ddlErr == ""; i++ {
		core.Tick()
		var err error
		for attempt := 0; attempt < 50; attempt++ {
			if indexed {
				err = Do(func() error { return h.DB.DropIndex(name, "x") })
			} else {
				err = Do(func() error { return h.DB.CreateIndex(name, "x") })
			}
			if !errors.Is(err, badger.ErrConflict) {
				break
			}
			atomic.AddInt64(&ddlConflicts, 1)
			runtime.Gosched()
		}
		if errors.Is(err, badger.ErrConflict) {
			break // refused fifty times in a row: stop the DDL here, the index state is unchanged
		}
		if err != nil {
			ddlErr = fmt.Sprintf("index DDL number %d (drop=%v) failed: %v", i, indexed, err)
			break
		}
		indexed = !indexed
		// let the readers go on for a few queries before the next DDL
		for t, base := 0, atomic.LoadInt64(&reads); t < 200 && atomic.LoadInt64(&reads) < base+int64(readers); t++ {
			time.Sleep(50 * time.Microsecond)
		}
	}
	// the readers keep running for a moment after the last DDL: a reader that started before it ends after it
	for t, base := 0, atomic.LoadInt64(&reads); t < 200 && atomic.LoadInt64(&reads) < base+int64(2*readers); t++ {
		time.Sleep(50 * time.Microsecond)
	}
	atomic.StoreInt32(&stop, 1)
	wg.Wait()
	if h.MS != nil {
		h.MS.SetPerturb(mon.Perturb{})
	}
	for _, m := range inserted {
		mc.Docs[m["_id"].(string)] = m
	}
	c.Eval(int(reads))
	c.Count("ddl_concurrent_reads", int(reads))
	c.Count("ddl_refused_by_conflict", int(ddlConflicts))
	if ddlErr != "" {
		c.Violate("conc:ddl-error", "%s", ddlErr)
		return
	}
	if v := bad.Load(); v != nil {
		c.Violate("conc:ddl-read", "%s (%d documents, %s)", v, n, backend)
		return
	}
	// quiescent: the same queries again, then the full audit
	for _, k := range []int{0, n / 3, n - 1} {
		for _, sorted := range []bool{false, true} {
			q := query.NewQuery(name).Where(query.Field("x").GtEq(int64(k)))
			if sorted {
				q = q.Sort(query.SortOption{Field: "x", Direction: 1})
			}
			got, err := h.DB.FindAll(q)
			c.Eval(1)
			if why := check(k, sorted, got, err); why != "" {
				has, _ := h.DB.HasIndex(name, "x")
				c.Violate("conc:ddl-stale", "after %d index DDLs run next to %d readers (HasIndex now %v): %s", cycles, readers, has, why)
				return
			}
		}
	}
	s := NewS(c, h)
	if indexed {
		mc.Indexes["x"] = true
	}
	s.m.Colls[name] = mc
	s.Audit("index DDL next to concurrent readers")
	if !s.failed {
		c.Cell("conc-ddl|%s|readers%d|ends-indexed=%v", backendClass(backend), readers, indexed)
	}
}

// RunConcOversized: a reader counts the documents of one batch while another goroutine inserts that batch, which
// is larger than badger's default transaction size (bbolt has no such limit). Whatever the store does with a
// transaction of that size - refuse it, or take it - the reader sees none or all of the batch, and a refused
// batch leaves nothing behind.
func RunConcOversized(c *core.Ctx) {
	r := c.R
	backend := []string{BadgerShip, BBolt, BadgerShip}[c.Case%3]
	h, err := Open(c, backend, "")
	if err != nil {
		c.Violate("open-error", "opening %s failed: %v", backend, err)
		return
	}
	defer h.Destroy()
	c.Backend = backend
	if err := h.DB.CreateCollection("big"); err != nil {
		c.Violate("setup", "%v", err)
		return
	}
	if r.Bool() {
		h.DB.CreateIndex("big", "a")
	}
	const n = 14
	blob := strings.Repeat("x", 900<<10)
	docs := make([]*document.Document, n)
	for i := range docs {
		d := document.NewDocument()
		d.Set("_id", r.UUID())
		d.Set("a", int64(i))
		d.Set("batch", int64(1))
		d.Set("blob", blob)
		docs[i] = d
	}
	dup := r.Bool()
	if dup {
		docs[n-1].Set("_id", docs[0].ObjectId()) // the batch fails at its very end
	}
	var stop int32
	var wg sync.WaitGroup
	var torn atomic.Value
	var reads int64
	seen := map[int]bool{}
	var seenMu sync.Mutex
	for k := 0; k < 2; k++ {
		wg.Add(1)
		go func() {
			defer wg.Done()
			for atomic.LoadInt32(&stop) == 0 {
				core.Tick()
				cnt, err := h.DB.Count(query.NewQuery("big").Where(query.Field("batch").Eq(int64(1))))
				atomic.AddInt64(&reads, 1)
				if err != nil {
					torn.CompareAndSwap(nil, fmt.Sprintf("Count failed: %v", err))
					return
				}
				seenMu.Lock()
				seen[cnt] = true
				seenMu.Unlock()
				if cnt != 0 && cnt != n {
					torn.CompareAndSwap(nil, fmt.Sprintf("a reader counted %d of the %d documents of one Insert call", cnt, n))
					return
				}
			}
		}()
	}
	for atomic.LoadInt64(&reads) < 2 {
		time.Sleep(50 * time.Microsecond)
	}
	insErr := Do(func() error { return h.DB.Insert("big", docs...) })
	base := atomic.LoadInt64(&reads)
	for t := 0; t < 400 && atomic.LoadInt64(&reads) < base+2; t++ {
		time.Sleep(50 * time.Microsecond)
	}
	atomic.StoreInt32(&stop, 1)
	wg.Wait()
	c.Eval(int(reads))
	if pe, ok := IsPanic(insErr); ok {
		c.Violate(PanicSig(pe), "Insert of %d x 900 KB panicked: %v\n%s", n, pe.Val, trim(pe.Stack, 20))
		return
	}
	if v := torn.Load(); v != nil {
		c.Violate("conc:torn-oversized-batch", "%s (%s, Insert returned %v)", v, backend, insErr)
		return
	}
	if dup && insErr == nil {
		c.Violate("conc:oversized-accepted", "Insert of a batch whose last document repeats the first id returned success on %s", backend)
		return
	}
	cnt, err := h.DB.Count(query.NewQuery("big"))
	want := n
	if insErr != nil {
		want = 0
	}
	if err != nil || cnt != want {
		c.Violate("conc:oversized-partial-effect", "Insert of %d x 900 KB on %s returned %v, and the collection now holds %d documents (%v); want %d", n, backend, insErr, cnt, err, want)
		return
	}
	s := NewS(c, h)
	mc := model.NewColl()
	if insErr == nil {
		for _, d := range docs {
			mc.Docs[d.ObjectId()] = model.FromDoc(d)
		}
	}
	if has, _ := h.DB.HasIndex("big", "a"); has {
		mc.Indexes["a"] = true
	}
	s.m.Colls["big"] = mc
	s.AuditPhysical("oversized insert next to readers")
	if !s.failed {
		c.Cell("conc-oversized|%s|accepted=%v|duplicate-last=%v", backendClass(backend), insErr == nil, dup)
	}
}

// RunConcRecency: one writer inserts (and deletes) single documents; the moment a call has returned, the writer
// itself asks for the document by id and for the count - both must reflect it, whatever other goroutines are
// reading at that moment (real-time order: an operation that starts after another one has returned sees it).
// Several readers run overlapping FindAll queries all the time, so that a reader is always in flight.
func RunConcRecency(c *core.Ctx) {
	r := c.R
	backend := gen.Pick(r, []string{BadgerMem, BadgerDisk, BadgerRaw, BadgerShip, BBolt, BBoltRaw})
	h, err := Open(c, backend, "")
	if err != nil {
		c.Violate("open-error", "opening %s failed: %v", backend, err)
		return
	}
	defer h.Destroy()
	c.Backend = backend
	const name = "r"
	if err := h.DB.CreateCollection(name); err != nil {
		c.Violate("setup", "%v", err)
		return
	}
	if r.Bool() {
		h.DB.CreateIndex(name, "x")
	}
	// a base load so that a reader's scan takes a while
	base := make([]*document.Document, r.Range(50, 400))
	for i := range base {
		d := document.NewDocument()
		d.Set("_id", r.UUID())
		d.Set("x", int64(i))
		base[i] = d
	}
	if err := h.DB.Insert(name, base...); err != nil {
		c.Violate("setup", "%v", err)
		return
	}
	var stop int32
	var wg sync.WaitGroup
	var readerErr atomic.Value
	readers := r.Range(3, 8)
	for i := 0; i < readers; i++ {
		wg.Add(1)
		go func() {
			defer wg.Done()
			for atomic.LoadInt32(&stop) == 0 {
				core.Tick()
				if _, err := h.DB.FindAll(query.NewQuery(name).Where(query.Field("x").GtEq(int64(0)))); err != nil {
					readerErr.CompareAndSwap(nil, fmt.Sprintf("FindAll failed: %v", err))
					return
				}
			}
		}()
	}
	live := len(base)
	writes := r.Range(150, 400)
	var problem string
	var lastID string
	for i := 0; i < writes && problem == ""; i++ {
		core.Tick()
		if lastID != "" && r.P(30) {
			if err := h.DB.DeleteById(name, lastID); err != nil {
				problem = fmt.Sprintf("DeleteById failed: %v", err)
				break
			}
			live--
			d, err := h.DB.FindById(name, lastID)
			if err != nil || d != nil {
				problem = fmt.Sprintf("write %d: DeleteById(%s) had returned, yet FindById right after still finds the document (%v)", i, short(lastID), err)
				break
			}
			lastID = ""
		} else {
			d := document.NewDocument()
			id := r.UUID()
			d.Set("_id", id)
			d.Set("x", int64(1000+i))
			if err := h.DB.Insert(name, d); err != nil {
				problem = fmt.Sprintf("Insert failed: %v", err)
				break
			}
			live++
			lastID = id
			got, err := h.DB.FindById(name, id)
			if err != nil || got == nil {
				problem = fmt.Sprintf("write %d: Insert(%s) had returned, yet FindById right after does not find the document (%v)", i, short(id), err)
				break
			}
		}
		n, err := h.DB.Count(query.NewQuery(name))
		if err != nil || n != live {
			problem = fmt.Sprintf("write %d: after the call returned Count says %d (%v), %d documents are live (this goroutine is the only writer)", i, n, err, live)
			break
		}
		if r.P(20) {
			n2, err := h.DB.Count(query.NewQuery(name).Where(query.Field("x").GtEq(int64(0))))
			if err != nil || n2 != live {
				problem = fmt.Sprintf("write %d: after the call returned Count(x >= 0) says %d (%v), %d documents are live", i, n2, err, live)
				break
			}
		}
		c.Eval(2)
	}
	atomic.StoreInt32(&stop, 1)
	wg.Wait()
	if v := readerErr.Load(); v != nil && problem == "" {
		problem = v.(string)
	}
	if problem != "" {
		c.Violate("conc:stale-read-after-return", "%s (%s, %d overlapping readers)", problem, backend, readers)
		return
	}
	c.Cell("conc-recency|%s|readers%d", backendClass(backend), readers)
}

// RunConcPhantom forces one interleaving on a badger store behind the monitor: a bulk Update selects "g == 1"
// through the index on g and is held just before its Commit; meanwhile ReplaceById moves another document INTO
// that range (g: 0 -> 1) and commits, and a reader takes a snapshot; then the bulk Update is released. If the
// Update reports success, one sequential order must explain everything: either it came before the Replace - then
// the snapshot, taken after the Replace, shows its effect - or after it - then the moved document is updated too.
// (On bbolt the interleaving cannot exist: a write transaction holds the single writer lock from Begin on.)
func RunConcPhantom(c *core.Ctx) {
	r := c.R
	backend := []string{BadgerMem, BadgerDisk}[c.Case%2]
	h, err := Open(c, backend, "")
	if err != nil {
		c.Violate("open-error", "opening %s failed: %v", backend, err)
		return
	}
	defer h.Destroy()
	c.Backend = backend
	const name = "ph"
	ids := []string{r.UUID(), r.UUID(), r.UUID(), r.UUID()}
	mk := func(id string, g, b int64) *document.Document {
		d := document.NewDocument()
		d.Set("_id", id)
		d.Set("g", g)
		d.Set("b", b)
		return d
	}
	if err := h.DB.CreateCollection(name); err != nil {
		c.Violate("setup", "%v", err)
		return
	}
	if err := h.DB.Insert(name, mk(ids[0], 1, -1), mk(ids[1], 0, -1), mk(ids[2], 1, -1), mk(ids[3], 2, -1)); err != nil {
		c.Violate("setup", "%v", err)
		return
	}
	indexed := c.Case%4 < 2
	if indexed {
		if err := h.DB.CreateIndex(name, "g"); err != nil {
			c.Violate("setup", "%v", err)
			return
		}
	}
	read := func() (map[string][2]int64, error) {
		docs, err := h.DB.FindAll(query.NewQuery(name))
		out := map[string][2]int64{}
		for _, d := range docs {
			g, _ := d.Get("g").(int64)
			b, _ := d.Get("b").(int64)
			out[d.ObjectId()] = [2]int64{g, b}
		}
		return out, err
	}
	atCommit := make(chan struct{})
	resume := make(chan struct{})
	var updater int64
	var once sync.Once
	h.MS.SetHook(func(k mon.Kind, write bool, gid int64) {
		if k == mon.KCommit && write && gid == atomic.LoadInt64(&updater) {
			once.Do(func() {
				close(atCommit)
				<-resume
			})
		}
	})
	defer h.MS.SetHook(nil)
	done := make(chan error, 1)
	go func() {
		atomic.StoreInt64(&updater, mon.Goid())
		done <- Do(func() error {
			return h.DB.Update(query.NewQuery(name).Where(query.Field("g").Eq(int64(1))), map[string]interface{}{"b": int64(28)})
		})
	}()
	select {
	case <-atCommit:
	case e := <-done:
		c.Violate("conc:phantom:setup", "the bulk Update returned (%v) without reaching a Commit", e)
		return
	}
	core.Tick()
	repErr := Do(func() error { return h.DB.ReplaceById(name, ids[1], mk(ids[1], 1, -1)) })
	mid, midErr := read()
	close(resume)
	updErr := <-done
	fin, finErr := read()
	c.Eval(3)
	c.Log("Update(g==1, b=28) held at its Commit; ReplaceById(%s, g=1) -> %v; snapshot; Update released -> %v", short(ids[1]), repErr, updErr)
	if pe, ok := IsPanic(updErr); ok {
		c.Violate(PanicSig(pe), "Update panicked: %v", pe.Val)
		return
	}
	if midErr != nil || finErr != nil {
		c.Violate("conc:phantom:read", "reads failed: %v / %v", midErr, finErr)
		return
	}
	if repErr != nil {
		// the store refused the Replace instead (also a correct way out): it must have had no effect
		if mid[ids[1]][0] != 0 {
			c.Violate("conc:phantom:refused-replace-took-effect", "ReplaceById returned %v but the document moved", repErr)
		}
		c.Cell("conc-phantom|replace-refused|indexed=%v|%s", indexed, backendClass(backend))
		return
	}
	if updErr != nil {
		// refused (conflict): no effect at all
		for _, id := range ids {
			if fin[id][1] == 28 {
				c.Violate("conc:phantom:refused-update-took-effect", "Update returned %v but document %s carries b=28", updErr, short(id))
				return
			}
		}
		c.Cell("conc-phantom|update-refused|indexed=%v|%s", indexed, backendClass(backend))
		return
	}
	// both succeeded. Order U < R: the snapshot (after R) shows U's effect. Order R < U: the moved document is updated.
	beforeReplace := mid[ids[0]][1] == 28 && mid[ids[2]][1] == 28
	afterReplace := fin[ids[1]][1] == 28
	if fin[ids[0]][1] != 28 || fin[ids[2]][1] != 28 {
		c.Violate("conc:phantom:lost-update", "Update(g==1, b=28) returned success but a document of g==1 does not carry b=28 afterwards: %v", fin)
		return
	}
	if !beforeReplace && !afterReplace {
		plan := "a full scan"
		if indexed {
			plan = "the index on g"
		}
		c.Violate("conc:phantom:index-range-bulk-write-vs-point-write:"+backendClass(backend),
			"on %s, Update(g==1, b=28) selecting through %s and ReplaceById(%s: g 0 -> 1) both succeeded although they overlapped; a snapshot taken after the Replace returned and before the Update returned shows the Replace done and the Update not (b=%d on a g==1 document), yet in the end the moved document was NOT updated (b=%d): no sequential order of the three operations explains that (the Update read its selection before the Replace and committed after it; the store did not see a conflict because the new index entry is a phantom for the range the Update had scanned)",
			backend, plan, short(ids[1]), mid[ids[0]][1], fin[ids[1]][1])
		return
	}
	c.Cell("conc-phantom|both-succeeded|serializable|indexed=%v|%s", indexed, backendClass(backend))
}
