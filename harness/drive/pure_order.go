package drive

import (
	"bytes"
	"fmt"
	"math"
	"strings"
	"time"

	"github.com/ostafen/clover/v2/document"
	"github.com/ostafen/clover/v2/index"
	"github.com/ostafen/clover/v2/query"
	"github.com/ostafen/clover/v2/store"

	"verif/harness/core"
	"verif/harness/gen"
	"verif/harness/model"
)

// recTx records the keys written through it (seam S3): index.Add on a recTx
// exposes the exact key bytes of a value although `internal` is not importable.
type recTx struct {
	keys [][]byte
}

func (t *recTx) Set(key, value []byte) error {
	t.keys = append(t.keys, append([]byte(nil), key...))
	return nil
}
func (t *recTx) Get(key []byte) ([]byte, error)            { return nil, nil }
func (t *recTx) Delete(key []byte) error                   { return nil }
func (t *recTx) Cursor(forward bool) (store.Cursor, error) { return nil, fmt.Errorf("no cursor") }
func (t *recTx) Commit() error                             { return nil }
func (t *recTx) Rollback() error                           { return nil }

const fixedDocID = "00000000-0000-4000-8000-000000000000"

// indexKey returns the key bytes the range index writes for a value.
func indexKey(v any) ([]byte, error) {
	tx := &recTx{}
	idx := index.CreateIndex("c", "f", index.SingleField, tx)
	if err := idx.Add(fixedDocID, model.DeepCopy(v), time.Duration(-1)); err != nil {
		return nil, err
	}
	if len(tx.keys) != 1 {
		return nil, fmt.Errorf("index.Add wrote %d keys", len(tx.keys))
	}
	return tx.keys[0], nil
}

// observedSign observes the sign of clover's comparison through Criteria.Satisfy (seam S4).
func observedSign(a, b any) (int, string) {
	doc := document.NewDocument()
	doc.Set("f", model.DeepCopy(a))
	f := query.Field("f")
	gt := f.Gt(model.DeepCopy(b)).Satisfy(doc)
	lt := f.Lt(model.DeepCopy(b)).Satisfy(doc)
	eq := f.Eq(model.DeepCopy(b)).Satisfy(doc)
	ge := f.GtEq(model.DeepCopy(b)).Satisfy(doc)
	le := f.LtEq(model.DeepCopy(b)).Satisfy(doc)
	n := 0
	s := 0
	if gt {
		n++
		s = 1
	}
	if lt {
		n++
		s = -1
	}
	if eq {
		n++
		s = 0
	}
	if n != 1 {
		return 0, fmt.Sprintf("Gt=%v Lt=%v Eq=%v: not exactly one holds", gt, lt, eq)
	}
	if ge != (gt || eq) || le != (lt || eq) {
		return 0, fmt.Sprintf("GtEq=%v LtEq=%v inconsistent with Gt=%v Lt=%v Eq=%v", ge, le, gt, lt, eq)
	}
	return s, ""
}

// keyDomain tells whether key/order agreement is specified for the value (C10:
// numbers within 2^53, times from 1970 on, recursively).
func keyDomain(v any) bool {
	switch x := v.(type) {
	case int64:
		return x >= -(1<<53) && x <= 1<<53
	case uint64:
		return x <= 1<<53
	case float64:
		return !math.IsNaN(x)
	case time.Time:
		return x.Unix() >= 0 && x.Year() < 2262
	case []any:
		for _, e := range x {
			if !keyDomain(e) {
				return false
			}
		}
	case map[string]any:
		for _, e := range x {
			if !keyDomain(e) {
				return false
			}
		}
	}
	return true
}

func typeClass(v any) string {
	switch x := v.(type) {
	case nil:
		return "nil"
	case int64:
		return "int64"
	case uint64:
		return "uint64"
	case float64:
		if math.IsInf(x, 0) {
			return "inf"
		}
		return "float64"
	case string:
		return "string"
	case bool:
		return "bool"
	case time.Time:
		return "time"
	case []any:
		return "array"
	case map[string]any:
		return "object"
	}
	return "?"
}

func boundaryClass(v any) string {
	switch x := v.(type) {
	case int64:
		if x == math.MaxInt64 || x == math.MinInt64 || x == math.MaxInt64-1 || x == math.MinInt64+1 {
			return "extreme"
		}
		if x > 1<<53 || x < -(1<<53) {
			return "beyond53"
		}
	case uint64:
		if x > 1<<63-2 {
			return "above63"
		}
		if x > 1<<53 {
			return "beyond53"
		}
	case float64:
		if x == 0 {
			return "zero"
		}
		if math.Abs(x) < 1e-300 {
			return "subnormal"
		}
	case string:
		if strings.ContainsAny(x, "\x00\xff") {
			return "0x00/0xff"
		}
		if x == "" {
			return "empty"
		}
	case []any:
		if len(x) == 0 {
			return "empty"
		}
	case map[string]any:
		if len(x) == 0 {
			return "empty"
		}
	}
	return "plain"
}

// boundaryPool is the boundary-rich value set of C10.
func boundaryPool() []any {
	var p []any
	add := func(vs ...any) { p = append(p, vs...) }
	add(nil, true, false)
	for _, n := range []int64{0, 1, -1, 2, 3, 127, 128, 255, 256, -128, -129, 1 << 31, 1<<31 - 1, -(1 << 31), 1 << 32, 1<<53 - 1, 1 << 53, 1<<53 + 1, -(1 << 53), -(1 << 53) - 1,
		math.MaxInt64, math.MaxInt64 - 1, math.MinInt64, math.MinInt64 + 1, 1 << 62} {
		add(n)
	}
	for _, n := range []uint64{0, 1, 2, 255, 1 << 32, 1<<53 - 1, 1 << 53, 1<<53 + 1, 1<<63 - 1, 1 << 63, 1<<63 + 1, 1<<63 + 5, math.MaxUint64, math.MaxUint64 - 1} {
		add(n)
	}
	for _, f := range []float64{0, math.Copysign(0, -1), 1, -1, 0.5, -0.5, 1.5, 2, 3, 2.5, 127, 128, 255.5, 1 << 31, 1 << 32, 1<<53 - 1, 1 << 53, -(1 << 53), 1e15, 1e-9, -1e-9,
		math.SmallestNonzeroFloat64, -math.SmallestNonzeroFloat64, 5e-324 * 4, math.MaxFloat64, -math.MaxFloat64, math.Inf(1), math.Inf(-1), 1e300, -1e300,
		// the powers of two at which conversions to int64 / uint64 stop being exact or wrap, and their neighbours
		1 << 62, 1 << 63, -(1 << 63), 1 << 64, 1<<63 - 1024, 1<<63 + 2048, -(1 << 63) - 2048, 1<<64 - 2048, 1<<53 + 2} {
		add(f)
	}
	for _, s := range []string{"", "a", "aa", "ab", "abc", "b", "a\x00", "a\x00\x00", "a\x00b", "a\x01", "a\xff", "a\xffb", "\x00", "\x00\x00", "\x00\x01", "\x00\xff", "\xff", "\xff\x00", "\xff\xff", "\xfe", "é", "z", "A", "0", "10", "9", " "} {
		add(s)
	}
	// long strings with long common prefixes (around 1024 and 8192 bytes): nothing may look at a prefix only
	k1024, q8192 := strings.Repeat("k", 1024), strings.Repeat("q", 8192)
	add(k1024[:1023], k1024, k1024+"a", k1024+"b", k1024+"a\x00", q8192, q8192+"x", q8192+"y")
	locs := []*time.Location{time.UTC, time.FixedZone("", 3600), time.FixedZone("", -9*3600)}
	for i, t := range []time.Time{
		time.Unix(0, 0), time.Unix(0, 1), time.Unix(1, 0), time.Unix(1_600_000_000, 0), time.Unix(1_600_000_000, 1), time.Unix(1_600_000_000, 999_999_999),
		time.Unix(1_600_000_001, 0), time.Unix(4_000_000_000, 0), time.Unix(9_000_000_000, 5), // year 2255
		time.Date(2261, 12, 31, 0, 0, 0, 0, time.UTC),
		time.Date(1, 1, 1, 0, 0, 0, 0, time.UTC), time.Date(1600, 2, 29, 12, 0, 0, 1, time.UTC), time.Date(1677, 9, 21, 0, 12, 43, 145224191, time.UTC), time.Date(1677, 9, 21, 0, 12, 43, 145224193, time.UTC),
		time.Date(2262, 4, 11, 23, 47, 16, 854775806, time.UTC), time.Date(2262, 4, 11, 23, 47, 16, 854775808, time.UTC), time.Date(2300, 1, 1, 0, 0, 0, 0, time.UTC), time.Date(9999, 12, 31, 23, 59, 59, 999999999, time.UTC),
		time.Date(1969, 12, 31, 23, 59, 59, 0, time.UTC), time.Date(1700, 1, 1, 0, 0, 0, 0, time.UTC), time.Date(1800, 6, 1, 0, 0, 0, 5, time.UTC), time.Date(2200, 1, 1, 0, 0, 0, 0, time.UTC),
	} {
		add(t.In(locs[i%len(locs)]))
	}
	add(time.Unix(1_600_000_000, 0).In(locs[1])) // same instant, other zone
	// containers built from scalars of the pool
	add([]any{}, []any{nil}, []any{int64(1)}, []any{int64(1), int64(2)}, []any{int64(1), int64(2), int64(3)}, []any{int64(2)}, []any{float64(1)}, []any{uint64(1)},
		[]any{"a"}, []any{"a", "b"}, []any{"ab"}, []any{"a\x00"}, []any{"a", int64(1)}, []any{[]any{}}, []any{[]any{int64(1)}}, []any{[]any{int64(1)}, int64(0)}, []any{map[string]any{}}, []any{true}, []any{false, true},
		[]any{nil, nil}, []any{float64(1.5)}, []any{int64(-1)}, []any{"\xff"}, []any{time.Unix(1_600_000_000, 0).UTC()}, []any{int64(math.MaxInt64)}, []any{int64(math.MinInt64)}, []any{uint64(math.MaxUint64)})
	add(map[string]any{}, map[string]any{"a": nil}, map[string]any{"a": int64(1)}, map[string]any{"a": int64(2)}, map[string]any{"a": float64(1)}, map[string]any{"a": int64(1), "b": int64(2)},
		map[string]any{"b": int64(0)}, map[string]any{"ab": int64(0)}, map[string]any{"a": "x"}, map[string]any{"a": []any{}}, map[string]any{"a": []any{int64(1)}}, map[string]any{"a": map[string]any{}},
		map[string]any{"a": map[string]any{"a": int64(1)}}, map[string]any{"": int64(1)}, map[string]any{"a\x00": int64(1)}, map[string]any{"a": true}, map[string]any{"a": int64(1), "c": int64(0)},
		map[string]any{"a": uint64(math.MaxUint64)}, map[string]any{"a": int64(math.MinInt64)}, map[string]any{"A": int64(1)}, map[string]any{"a": "x", "b": "y"}, map[string]any{"a": "x", "b": "z"})
	return p
}

func randomOrderValue(r *gen.Rng, depth int) any {
	switch r.Intn(14) {
	case 0:
		return nil
	case 1:
		return r.Bool()
	case 2:
		return int64(r.U64())
	case 3:
		return r.U64()
	case 4:
		return int64(r.Range(-300, 300))
	case 5:
		return uint64(r.Intn(600))
	case 6:
		return float64(r.Range(-600, 600)) / 2
	case 7:
		return math.Float64frombits(r.U64()&^(0x7ff<<52) | uint64(r.Intn(2046)+1)<<52) // any finite, non-subnormal
	case 8:
		n := r.Intn(5)
		b := make([]byte, n)
		for i := range b {
			b[i] = gen.Pick(r, []byte{0, 1, 'a', 'b', 0xfe, 0xff})
		}
		s := string(b)
		if strings.HasPrefix(s, "$") {
			return "x"
		}
		return s
	case 9:
		if r.P(25) {
			return time.Date(r.Range(1, 9999), time.Month(r.Range(1, 12)), r.Range(1, 28), r.Intn(24), r.Intn(60), r.Intn(60), r.Intn(1_000_000_000), time.UTC)
		}
		return r.TimeWide()
	case 10:
		if depth > 0 {
			n := r.Intn(4)
			s := make([]any, n)
			for i := range s {
				s[i] = randomOrderValue(r, depth-1)
			}
			return s
		}
		return int64(r.Intn(5))
	case 11:
		if depth > 0 {
			n := r.Intn(3)
			m := map[string]any{}
			for i := 0; i < n; i++ {
				m[gen.Pick(r, []string{"a", "b", "ab", "", "a\x00"})] = randomOrderValue(r, depth-1)
			}
			return m
		}
		return "m"
	case 12:
		return int64(1<<53) + int64(r.Range(-3, 3))
	default:
		// a string starting with '$' used as an OPERAND denotes a field, so it cannot be compared as a value through Satisfy
		if v, ok := r.Str().(string); ok && !strings.HasPrefix(v, "$") {
			return v
		}
		return "s"
	}
}

// RunOrder decides C10 on one pool: case 0 is the boundary pool (all pairs,
// all triples), the other cases are random pools.
func RunOrder(c *core.Ctx) {
	var pool []any
	exhaustive := c.Case == 0
	if exhaustive {
		pool = boundaryPool()
	} else {
		n := 70
		bp := boundaryPool()
		for i := 0; i < n; i++ {
			if c.R.P(25) {
				pool = append(pool, gen.Pick(c.R, bp))
			} else {
				pool = append(pool, randomOrderValue(c.R, 2))
			}
		}
	}
	n := len(pool)
	sgn := make([][]int8, n)
	unspec := make([][]bool, n)
	keys := make([][]byte, n)
	for i, v := range pool {
		sgn[i] = make([]int8, n)
		unspec[i] = make([]bool, n)
		k, err := indexKey(v)
		if err != nil {
			if keyDomain(v) {
				c.Violate("order:key-error", "index key of %s cannot be computed: %v", model.Render(v), err)
				return
			}
			continue
		}
		keys[i] = k
	}
	// pairs
	for i := 0; i < n; i++ {
		for j := 0; j < n; j++ {
			a, b := pool[i], pool[j]
			s, bad := observedSign(a, b)
			if bad != "" {
				c.Violate("order:trichotomy", "comparing %s with %s: %s", model.Render(a), model.Render(b), bad)
				return
			}
			sgn[i][j] = int8(s)
			e := &model.Eval{}
			want := e.Compare(a, b)
			unspec[i][j] = e.Unspec
			c.Eval(1)
			if e.Unspec {
				c.Inconclusive("unspecified_comparison")
				continue
			}
			if s != want {
				c.Violate("order:sign", "clover orders %s %s %s, the documented order says %s", model.Render(a), rel(s), model.Render(b), rel(want))
				return
			}
			if i == j && s != 0 {
				c.Violate("order:reflexivity", "%s does not compare equal to itself", model.Render(a))
				return
			}
			// key agreement
			if keys[i] != nil && keys[j] != nil && keyDomain(a) && keyDomain(b) {
				ks := bytes.Compare(keys[i], keys[j])
				if ks != want {
					c.Violate("order:key-disagrees", "values %s %s %s but their index keys compare %s\n  key(a)=%q\n  key(b)=%q", model.Render(a), rel(want), model.Render(b), rel(ks), keys[i], keys[j])
					return
				}
				c.Count("key_pairs", 1)
			}
			if i < j {
				c.Cell("order|%s|%s|%s|%s|%s", typeClass(a), typeClass(b), rel(want), boundaryClass(a), boundaryClass(b))
			}
		}
	}
	// antisymmetry and transitivity over the observed sign matrix
	for i := 0; i < n; i++ {
		for j := 0; j < n; j++ {
			if unspec[i][j] {
				continue
			}
			if sgn[i][j] != -sgn[j][i] {
				c.Violate("order:antisymmetry", "cmp(%s,%s)=%d but cmp(%s,%s)=%d", model.Render(pool[i]), model.Render(pool[j]), sgn[i][j], model.Render(pool[j]), model.Render(pool[i]), sgn[j][i])
				return
			}
		}
	}
	triples := 0
	for i := 0; i < n; i++ {
		for j := 0; j < n; j++ {
			if unspec[i][j] || sgn[i][j] > 0 {
				continue
			}
			for k := 0; k < n; k++ {
				if unspec[j][k] || unspec[i][k] || sgn[j][k] > 0 {
					continue
				}
				triples++
				if sgn[i][k] > 0 || (sgn[i][j] < 0 || sgn[j][k] < 0) && sgn[i][k] == 0 {
					c.Violate("order:transitivity", "a<=b, b<=c but not a<=c (or strictness lost) for a=%s b=%s c=%s", model.Render(pool[i]), model.Render(pool[j]), model.Render(pool[k]))
					return
				}
			}
		}
	}
	c.Eval(triples)
	c.Count("triples", triples)
	if exhaustive {
		c.Exhaustive("boundary-pool-pairs-and-triples", true)
		c.Count("boundary_pool_size", n)
		c.Sample(map[string]any{"pool": "boundary", "size": n, "example_values": []string{model.Render(pool[5]), model.Render(pool[40]), model.Render(pool[90]), model.Render(pool[n-1])}})
	}
}

func rel(s int) string {
	switch {
	case s < 0:
		return "<"
	case s > 0:
		return ">"
	}
	return "=="
}
