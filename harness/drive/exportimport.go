package drive

import (
	"fmt"
	"math"
	"os"
	"path/filepath"
	"strings"
	"time"

	"github.com/ostafen/clover/v2/document"

	"verif/harness/core"
	"verif/harness/gen"
	"verif/harness/model"
	"verif/harness/mon"
)

// cname renders a collection name for logs (long names abbreviated).
func cname(n string) string {
	if len(n) > 48 {
		return fmt.Sprintf("%q...<%d bytes>", n[:8], len(n))
	}
	return fmt.Sprintf("%q", n)
}

// jsonImage is what a value becomes after export + import: numbers are JSON
// numbers (float64 after decoding), times their RFC 3339 text.
func jsonImage(v any) any {
	switch x := v.(type) {
	case int64:
		return float64(x)
	case uint64:
		return float64(x)
	case time.Time:
		return x.Format(time.RFC3339Nano)
	case []any:
		out := make([]any, len(x))
		for i, e := range x {
			out[i] = jsonImage(e)
		}
		return out
	case map[string]any:
		out := make(map[string]any, len(x))
		for k, e := range x {
			out[k] = jsonImage(e)
		}
		return out
	}
	return v
}

var jsonStrings = []string{"", "a", "héllo", "日本語", "<tag> & \"quote\"", "line\nbreak", "tab\t", " ", "zero\x00byte", "$x", "back\\slash", "emoji 🎉"}

func jsonScalar(r *gen.Rng) any {
	switch r.Intn(10) {
	case 0:
		return nil
	case 1:
		return r.Bool()
	case 2:
		return int64(r.Range(-1000, 1000))
	case 3:
		return int64(1<<53) - int64(r.Intn(3))
	case 4:
		return uint64(r.Intn(1 << 20))
	case 5:
		return float64(r.Range(-4000, 4000)) / 16
	case 6:
		return gen.Pick(r, []float64{0, 1e21, 1e-7, -2.5e10, 123456789.125, 0.1})
	case 7:
		return r.TimeWide()
	default:
		return gen.Pick(r, jsonStrings)
	}
}

func jsonValue(r *gen.Rng, depth int) any {
	if depth <= 0 || r.P(55) {
		return jsonScalar(r)
	}
	if r.Bool() {
		n := r.Intn(4)
		s := make([]any, n)
		for i := range s {
			s[i] = jsonValue(r, depth-1)
		}
		return s
	}
	n := r.Intn(4)
	m := map[string]any{}
	for i := 0; i < n; i++ {
		m[gen.Pick(r, []string{"a", "b", "é", "k k", ""})] = jsonValue(r, depth-1)
	}
	return m
}

func (s *S) rawSnapshot() []mon.KV {
	if s.h.Inner == nil {
		return nil
	}
	kv, err := s.h.Snapshot()
	if err != nil {
		s.viol("snapshot-error", "raw snapshot failed: %v", err)
		return nil
	}
	return kv
}

func (s *S) sameSnapshot(before []mon.KV, after string) bool {
	if before == nil || s.failed {
		return !s.failed
	}
	now := s.rawSnapshot()
	if s.failed {
		return false
	}
	if d := mon.DiffSnapshots(before, now); d != "" {
		s.viol("store-changed:"+opName(after), "%s changed the stored content although it must not: %s", after, d)
		return false
	}
	return true
}

// RunExportImport decides C19.
func RunExportImport(c *core.Ctx) {
	r := c.R
	backend := gen.Pick(r, []string{BBolt, BBolt, BadgerMem, BadgerDisk, BBoltRaw})
	h, err := Open(c, backend, "")
	if err != nil {
		c.Violate("open-error", "opening %s failed: %v", backend, err)
		return
	}
	defer h.Destroy()
	s := NewS(c, h)
	s.CreateCollection("src", nil)
	s.CreateCollection("other", nil)
	n := gen.Pick(r, []int{0, 1, 4, 12, 40})
	docs := make([]map[string]any, n)
	for i := range docs {
		d := map[string]any{"_id": r.UUIDMaybeUpper()}
		nf := r.Range(0, 6)
		for k := 0; k < nf; k++ {
			d[gen.Pick(r, []string{"a", "b", "c", "x", "obj", "arr", "é"})] = jsonValue(r, 3)
		}
		if r.P(30) {
			// a top-level field NAME holding a dot (only NewDocumentOf can make one; Set would read it as a path) is a name
			// like any other to export and import: it must not come back as a nested object
			d[gen.Pick(r, []string{"ver.tag", ".lead", "trail.", "x..y", "obj.k", "a.b"})] = jsonValue(r, 2)
			c.Count("documents_with_dotted_top_level_name", 1)
		}
		docs[i] = d
	}
	if n > 0 {
		// a fixed document with numbers as direct array elements at several depths, next to maps in arrays
		docs[0]["matrix"] = []any{[]any{int64(1), int64(0)}, []any{float64(0.5), int64(-3)}, int64(7), []any{[]any{uint64(2)}}}
		docs[0]["mixed"] = []any{int64(1), float64(2.5), "s", nil, true, map[string]any{"k": []any{int64(9)}}}
	}
	s.Insert("src", docs, false)
	s.Insert("other", []map[string]any{{"_id": r.UUID(), "a": int64(1)}}, false)
	indexed := r.Bool()
	if indexed {
		s.CreateIndex("src", gen.Pick(r, []string{"a", "x", "b"}))
		if r.Bool() {
			s.CreateIndex("src", "obj")
		}
	}
	if s.failed {
		return
	}
	dirSeq++
	dir := filepath.Join(c.Scratch, fmt.Sprintf("exp%d", dirSeq))
	os.MkdirAll(dir, 0755)
	defer os.RemoveAll(dir)
	path := filepath.Join(dir, "export.json")

	if r.P(40) {
		// an export that fails half way (a value JSON cannot express, after two documents that it can): whatever it
		// leaves behind in the handle or the process must not leak into the next export
		h.DB.CreateCollection("unexportable")
		for i, v := range []any{int64(1), "two", math.NaN(), int64(4)} {
			d := document.NewDocument()
			d.Set("_id", fixedID(7000+i))
			d.Set("v", v)
			h.DB.Insert("unexportable", d)
		}
		e := Do(func() error { return h.DB.ExportCollection("unexportable", filepath.Join(dir, "unexportable.json")) })
		c.Log("ExportCollection(\"unexportable\") [holds NaN] -> %v", e)
		if pe, ok := IsPanic(e); ok {
			s.viol(PanicSig(pe), "ExportCollection of a collection holding NaN panicked: %v", pe.Val)
			return
		}
		h.DB.DropCollection("unexportable")
		c.Count("failed_exports_before_the_export", 1)
	}
	// export does not modify the source
	before := s.rawSnapshot()
	got, e := s.run(fmt.Sprintf("ExportCollection(%q)", "src"), true, func() error { return s.h.DB.ExportCollection("src", path) })
	if !s.expect("ExportCollection(\"src\")", []string{OK}, got, e) || !s.sameSnapshot(before, "ExportCollection") {
		return
	}
	if !s.CompareCollection("src", "export:source-changed", "ExportCollection") {
		return
	}
	// import under a new name reproduces it; the name is short, dotted, or of a length (around 512 / 1024 bytes)
	// at which a key prefix built from it leaves room for an id in its allocation
	dst := gen.Pick(s.r, []string{"dst", "dst", "d.st", "dst:1;d:", "D" + strings.Repeat("n", 511), "D" + strings.Repeat("m", 519), "D" + strings.Repeat("k", 1023)})
	iname := fmt.Sprintf("ImportCollection(%s)", cname(dst))
	got, e = s.run(iname, false, func() error { return s.h.DB.ImportCollection(dst, path) })
	if !s.expect(iname, []string{OK}, got, e) {
		return
	}
	nc := model.NewColl()
	for id, d := range s.coll("src").Docs {
		nc.Docs[id] = jsonImage(d).(map[string]any)
	}
	s.m.Colls[dst] = nc
	if !s.CompareCollection(dst, "import:content", "ImportCollection") {
		return
	}
	s.Count(&model.Query{Coll: dst})
	s.ListIndexes(dst)
	if !s.CompareCollection("src", "import:source-changed", "ImportCollection") {
		return
	}
	c.Eval(1)
	if n >= 2 {
		c.Cell("export-import|docs%s|indexed=%v|%s", sizeClass(n), indexed, backendClass(backend))
	}
	for _, d := range docs {
		sh := map[string]bool{}
		shapes(d, "", sh)
		for k := range sh {
			c.Cell("json-shape|%s", k)
		}
	}

	// failure paths: nothing may change
	write := func(name, content string) string {
		p := filepath.Join(dir, name)
		os.WriteFile(p, []byte(content), 0644)
		return p
	}
	id1 := r.UUID()
	fails := []struct {
		kind, target, path string
		want               []string
	}{
		{"existing-target", "other", path, []string{ECollYes}},
		{"existing-target-self", "src", path, []string{ECollYes}},
		{"missing-file", "new1", filepath.Join(dir, "nope.json"), []string{EAny}},
		{"directory", "new2", dir, []string{EAny}},
		{"truncated", "new3", write("trunc.json", `[{"_id":"`+id1+`","a":1},{"_id":`), []string{EAny}},
		{"not-an-array", "new4", write("obj.json", `{"_id":"`+id1+`"}`), []string{EAny}},
		{"array-of-numbers", "new5", write("nums.json", `[1,2,3]`), []string{EAny}},
		{"empty-file", "new6", write("empty.json", ``), []string{EAny}},
		{"malformed-id", "new7", write("badid.json", `[{"_id":"`+id1+`","a":1},{"_id":"zz","a":2}]`), []string{EAny}},
		{"duplicate-id", "new8", write("dup.json", `[{"_id":"`+id1+`","a":1},{"_id":"`+id1+`","a":2}]`), []string{EDup, EAny}},
		{"garbage", "new9", write("garbage.json", "\x00\x01\x02not json"), []string{EAny}},
		{"bad-expires", "new10", write("exp.json", `[{"_id":"`+id1+`","_expiresAt":"soon"}]`), []string{EAny}},
	}
	for _, f := range fails {
		if s.failed {
			return
		}
		before := s.rawSnapshot()
		n := fmt.Sprintf("ImportCollection(%q, <%s>)", f.target, f.kind)
		got, e := s.run(n, false, func() error { return s.h.DB.ImportCollection(f.target, f.path) })
		if !s.expect(n, f.want, got, e) {
			return
		}
		if !s.sameSnapshot(before, n) {
			return
		}
		s.ListCollections()
		c.Cell("import-failure|%s|%s", f.kind, backendClass(backend))
	}
	// a large file whose LAST documents are bad: nothing of it may stay (an import that commits in batches would leave the first ones)
	if c.Case%5 == 0 && !s.failed {
		var b []byte
		b = append(b, '[')
		nbig := 1500 + r.Intn(1200)
		for i := 0; i < nbig; i++ {
			b = append(b, fmt.Sprintf(`{"_id":"%s","a":%d},`, r.UUID(), i)...)
		}
		kind := "late-malformed-id"
		switch r.Intn(3) {
		case 0:
			b = append(b, `{"_id":"zz","a":1}]`...)
		case 1:
			b = append(b, fmt.Sprintf(`{"_id":"%s","a":1},{"_id":"%s","a":2}]`, id1, id1)...)
			kind = "late-duplicate-id"
		default:
			b = append(b, fmt.Sprintf(`{"_id":"%s","_expiresAt":"x"}]`, id1)...)
			kind = "late-bad-expires"
		}
		p := write("big.json", string(b))
		before := s.rawSnapshot()
		n := fmt.Sprintf("ImportCollection(\"big\", <%d documents, %s>)", nbig, kind)
		got, e := s.run(n, false, func() error { return s.h.DB.ImportCollection("big", p) })
		if s.expect(n, []string{EAny, EDup}, got, e) && s.sameSnapshot(before, n) {
			s.ListCollections()
			s.Count(&model.Query{Coll: "big"})
			c.Cell("import-failure|%s|%s", kind, backendClass(backend))
		}
	}
	// export failure paths
	if !s.failed {
		before := s.rawSnapshot()
		got, e := s.run("ExportCollection(missing)", true, func() error { return s.h.DB.ExportCollection("nope", filepath.Join(dir, "x.json")) })
		s.expect("ExportCollection(missing)", []string{ECollNo}, got, e)
		got, e = s.run("ExportCollection(bad path)", true, func() error { return s.h.DB.ExportCollection("src", filepath.Join(dir, "no", "such", "dir", "x.json")) })
		s.expect("ExportCollection(bad path)", []string{EAny}, got, e)
		s.sameSnapshot(before, "ExportCollection(failing)")
	}
	if !s.failed {
		s.Audit("export/import")
		c.Sample(map[string]any{"backend": backend, "documents": n, "indexed": indexed, "example": model.Render(firstOr(docs))})
	}
}

func firstOr(d []map[string]any) map[string]any {
	if len(d) == 0 {
		return map[string]any{}
	}
	return d[0]
}
