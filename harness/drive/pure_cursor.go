package drive

import (
	"bytes"
	"fmt"
	"os"
	"sort"

	"github.com/ostafen/clover/v2/store"

	"verif/harness/core"
	"verif/harness/gen"
)

func removeAll(dir string) { os.RemoveAll(dir) }

func randKey(r *gen.Rng) []byte {
	n := r.Range(1, 4)
	b := make([]byte, n)
	for i := range b {
		b[i] = gen.Pick(r, []byte{0x00, 0x01, 'a', 'b', 'c', 0x7f, 0xfe, 0xff})
	}
	return b
}

// RunCursor checks the cursor contract of one store adapter against a sorted
// slice: forward seek -> first key >= target, reverse seek -> last key <=
// target, Next visits every key once in order, Valid false exactly past the
// end, empty values visible, Get of an absent key -> (nil, nil).
func RunCursor(c *core.Ctx) {
	r := c.R
	backend := gen.Pick(r, []string{BBolt, BBolt, BadgerMem, BadgerDisk})
	c.Backend = backend
	dirSeq++
	dir := fmt.Sprintf("%s/cur%d", c.Scratch, dirSeq)
	st, err := OpenInner(backend, dir)
	if err != nil {
		c.Violate("open-error", "open %s: %v", backend, err)
		return
	}
	defer func() { st.Close(); removeAll(dir) }()

	oracle := map[string][]byte{}
	emptyKinds := 0
	put := func(tx store.Tx, k []byte) bool {
		var v []byte
		switch r.Intn(5) {
		case 0:
			v = nil
			emptyKinds++
		case 1:
			v = []byte{}
			emptyKinds++
		default:
			v = []byte(fmt.Sprintf("v%d", r.Intn(1000)))
		}
		if err := tx.Set(k, v); err != nil {
			c.Violate("cursor:set-error", "Set(%q): %v", k, err)
			return false
		}
		oracle[string(k)] = v
		return true
	}
	// phase 1: committed base content
	tx, err := st.Begin(true)
	if err != nil {
		c.Violate("cursor:begin", "%v", err)
		return
	}
	nBase := gen.Pick(r, []int{0, 1, 3, 10, 40})
	for i := 0; i < nBase; i++ {
		if !put(tx, randKey(r)) {
			tx.Rollback()
			return
		}
	}
	if err := tx.Commit(); err != nil {
		c.Violate("cursor:commit", "%v", err)
		return
	}
	// phase 2: a writing transaction with pending sets and deletes
	tx, err = st.Begin(true)
	if err != nil {
		c.Violate("cursor:begin", "%v", err)
		return
	}
	nPend := gen.Pick(r, []int{0, 1, 5, 20})
	for i := 0; i < nPend; i++ {
		if r.P(25) && len(oracle) > 0 {
			ks := sortedKeys(oracle)
			k := gen.Pick(r, ks)
			if err := tx.Delete([]byte(k)); err != nil {
				c.Violate("cursor:delete-error", "Delete(%q): %v", k, err)
				tx.Rollback()
				return
			}
			delete(oracle, k)
		} else if !put(tx, randKey(r)) {
			tx.Rollback()
			return
		}
	}
	if !cursorScripts(c, tx, oracle, backend, "writing-tx", emptyKinds > 0) {
		tx.Rollback()
		return
	}
	if err := tx.Commit(); err != nil {
		c.Violate("cursor:commit", "%v", err)
		return
	}
	rtx, err := st.Begin(false)
	if err != nil {
		c.Violate("cursor:begin", "%v", err)
		return
	}
	defer rtx.Rollback()
	cursorScripts(c, rtx, oracle, backend, "read-tx", emptyKinds > 0)
}

func sortedKeys(m map[string][]byte) []string {
	ks := make([]string, 0, len(m))
	for k := range m {
		ks = append(ks, k)
	}
	sort.Strings(ks)
	return ks
}

func cursorScripts(c *core.Ctx, tx store.Tx, oracle map[string][]byte, backend, phase string, hasEmpty bool) bool {
	r := c.R
	keys := sortedKeys(oracle)
	// Get
	for i := 0; i < 12; i++ {
		k := randKey(r)
		if len(keys) > 0 && r.Bool() {
			k = []byte(gen.Pick(r, keys))
		}
		v, err := tx.Get(k)
		c.Eval(1)
		if err != nil {
			c.Violate("cursor:get-error", "Get(%q) on %s (%s): %v", k, backend, phase, err)
			return false
		}
		want, present := oracle[string(k)]
		if !present && v != nil {
			c.Violate("cursor:get-absent", "Get(%q) of an absent key returned %q on %s (%s)", k, v, backend, phase)
			return false
		}
		if present && len(want) > 0 && !bytes.Equal(v, want) {
			c.Violate("cursor:get-value", "Get(%q) = %q, want %q on %s (%s)", k, v, want, backend, phase)
			return false
		}
		if present && len(want) == 0 && len(v) != 0 {
			c.Violate("cursor:get-value", "Get(%q) = %q, want an empty value on %s (%s)", k, v, backend, phase)
			return false
		}
	}
	nScripts := 14
	for s := 0; s < nScripts; s++ {
		forward := r.Bool()
		var target []byte
		pos := "absent"
		switch r.Intn(5) {
		case 0:
			if len(keys) > 0 {
				target = []byte(gen.Pick(r, keys))
				pos = "present"
			} else {
				target = randKey(r)
			}
		case 1:
			target = []byte{0x00}
			pos = "before-first"
			if len(keys) > 0 && keys[0] == "\x00" {
				pos = "present"
			}
		case 2:
			target = []byte{0xff, 0xff, 0xff, 0xff, 0xff}
			pos = "after-last"
		default:
			target = randKey(r)
			if _, ok := oracle[string(target)]; ok {
				pos = "present"
			}
		}
		cur, err := tx.Cursor(forward)
		if err != nil {
			c.Violate("cursor:open-error", "Cursor(%v): %v", forward, err)
			return false
		}
		if err := cur.Seek(target); err != nil {
			cur.Close()
			c.Violate("cursor:seek-error", "Seek(%q): %v", target, err)
			return false
		}
		// expected sequence
		var want []string
		if forward {
			i := sort.SearchStrings(keys, string(target))
			want = keys[i:]
		} else {
			i := sort.Search(len(keys), func(i int) bool { return keys[i] > string(target) })
			for j := i - 1; j >= 0; j-- {
				want = append(want, keys[j])
			}
		}
		var got []string
		ok := true
		for steps := 0; cur.Valid(); steps++ {
			if steps > len(keys)+2 {
				c.Violate("cursor:runaway", "cursor on %s (%s) still valid after %d steps over %d keys", backend, phase, steps, len(keys))
				ok = false
				break
			}
			it, err := cur.Item()
			if err != nil {
				c.Violate("cursor:item-error", "Item: %v", err)
				ok = false
				break
			}
			got = append(got, string(it.Key))
			if wv, present := oracle[string(it.Key)]; present && !bytes.Equal(wv, it.Value) && !(len(wv) == 0 && len(it.Value) == 0) {
				c.Violate("cursor:item-value", "cursor item %q has value %q, want %q on %s (%s)", it.Key, it.Value, wv, backend, phase)
				ok = false
				break
			}
			cur.Next()
		}
		cur.Close()
		if !ok {
			return false
		}
		c.Eval(1)
		if fmt.Sprintf("%q", got) != fmt.Sprintf("%q", want) {
			dir := "forward"
			if !forward {
				dir = "reverse"
			}
			c.Violate("cursor:contract:"+backendClass(backend)+":"+dir+":"+phase, "%s cursor on %s (%s), Seek(%q) [%s]: visited %q, want %q (keys %q)", dir, backend, phase, target, pos, got, want, keys)
			return false
		}
		if len(keys) >= 2 {
			c.Cell("cursor|%s|fwd=%v|%s|%s|empty-values=%v", backendClass(backend), forward, pos, phase, hasEmpty)
		}
	}
	return true
}
