package drive

import (
	"fmt"
	"github.com/gofrs/uuid/v5"

	"github.com/ostafen/clover/v2/document"
	"github.com/ostafen/clover/v2/query"
	"sort"
	"strings"
	"time"

	"verif/harness/core"
	"verif/harness/gen"
	"verif/harness/model"
)

// Hostile collection names: prefix pairs, names that look like key prefixes, unicode, empty.
var collNames = []string{"c", "cc", "c:", "coll:", "c1", "x", "xy", "日本語", "a b", "", "C", "c:x", "d:", "i:a", "c.n", "x.n", "a-rather-long-collection-name-0123456789-abcdef", "c%d", "%s",
	"L512-" + strings.Repeat("l", 507), "L1024-" + strings.Repeat("m", 1018)}

type SeqCfg struct {
	Focus                    string
	Ops                      [2]int
	NColls                   [2]int
	InitDocs                 []int // candidate initial sizes
	AuditEvery               [2]int
	Queries                  int // verification queries after each write
	W                        map[string]int
	Backends                 []string
	Derived                  bool // verification queries go through Derived()
	CheckOthers              bool // after every write, compare every other collection with the model (C13)
	IDSweep                  bool // after every write, FindById for every id ever used (C12)
	SharedIDs                bool // collections reuse the same ids
	MaxDocsForQueries        int
	CritPct, SortPct, WinPct int
	IDStyles                 bool // draw ids random / clustered / sequential per case
	ForceFields              map[string]gen.Profile
	BigPad                   bool
	AuditAfterIndexOps       bool
	SupplyIDs                bool // never let clover generate ids (runs that must be reproducible across handles)
	AfterClose               bool // finish with Close and a battery of calls on the closed handle
}

var baseWeights = map[string]int{
	"CreateCollection": 3, "DropCollection": 2, "HasCollection": 1, "ListCollections": 1,
	"CreateIndex": 5, "DropIndex": 3, "HasIndex": 1, "ListIndexes": 1,
	"Insert": 12, "InsertOne": 4, "Save": 4, "ReplaceById": 4, "UpdateById": 8,
	"Update": 6, "UpdateFunc": 6, "Delete": 4, "DeleteById": 6,
	"FindAll": 10, "Count": 3, "FindById": 3, "Derived": 0, "CreateByQuery": 1, "Reopen": 1, "FailedCommit": 2,
	"hostileBatchPct": 8, "rewriteIDPct": 3, "badExpPct": 3,
}

func weights(over map[string]int) map[string]int {
	w := map[string]int{}
	for k, v := range baseWeights {
		w[k] = v
	}
	for k, v := range over {
		w[k] = v
	}
	return w
}

type seqRun struct {
	*S
	cfg     *SeqCfg
	r       *gen.Rng
	pool    []string // shared id pool (SharedIDs)
	idStyle int
	idSeq   int
	opKeys  []string
	opW     []int
}

func (d *seqRun) pickOp() string { return d.opKeys[d.r.Weighted(d.opW)] }

func (d *seqRun) existingColl() (string, bool) {
	ns := d.m.Names()
	if len(ns) == 0 {
		return "", false
	}
	return gen.Pick(d.r, ns), true
}

func (d *seqRun) pickColl() string {
	if n, ok := d.existingColl(); ok && !d.r.P(7) {
		return n
	}
	return gen.Pick(d.r, collNames) // possibly missing, possibly existing
}

func (d *seqRun) schemaOf(coll string) *gen.Schema {
	if s := d.schemas[coll]; s != nil {
		return s
	}
	return d.r.Schema()
}

func (d *seqRun) pickID(coll string) string {
	mc := d.coll(coll)
	if mc != nil && len(mc.Docs) > 0 && d.r.P(78) {
		return gen.Pick(d.r, mc.IDs())
	}
	if ev := d.ever[coll]; len(ev) > 0 && d.r.P(60) {
		ids := keys(ev)
		return gen.Pick(d.r, ids)
	}
	if len(d.pool) > 0 && d.r.P(50) {
		return gen.Pick(d.r, d.pool)
	}
	return d.r.UUID()
}

func (d *seqRun) freshID() string {
	if d.cfg.SharedIDs && len(d.pool) > 0 && d.r.P(70) {
		return gen.Pick(d.r, d.pool)
	}
	switch d.idStyle {
	case 1: // clustered: a common prefix
		return "aaaaaaaa-bbbb-4ccc-8ddd-" + d.r.UUID()[24:]
	case 2: // sequential
		d.idSeq++
		return fmt.Sprintf("00000000-0000-4000-8000-%012x", d.idSeq)
	}
	return d.r.UUIDMaybeUpper()
}

func (d *seqRun) newSchema() *gen.Schema {
	var s *gen.Schema
	if d.cfg.ForceFields != nil {
		s = d.r.SchemaWith(d.cfg.ForceFields)
	} else {
		s = d.r.Schema()
	}
	if d.cfg.BigPad {
		s.Pad = gen.Pick(d.r, []int{0, 40, 300, 600})
	}
	return s
}

// nearlyUUID returns a canonical UUID with ONE byte replaced by a neighbour in the ASCII table that is not a hex digit
// (a bit of the byte cleared, set or flipped: control bytes, bytes beyond 0x7f, 'g', '@', '`', ...) or not a dash at a
// dash position: malformed, though a validator that folds case or masks bits carelessly lets it through.
func nearlyUUID(r *gen.Rng) string {
	for {
		b := []byte(r.UUID())
		i := r.Intn(len(b))
		switch r.Intn(7) {
		case 0:
			b[i] &^= 0x20
		case 1:
			b[i] |= 0x80
		case 2:
			b[i] ^= 0x40
		case 3:
			b[i] ^= 0x10
		case 4:
			b[i] |= 0x20
		case 5:
			b[i] = gen.Pick(r, []byte{0, 'g', 'G', '/', ':', '@', '`', ' ', '+'})
		default:
			b[i] ^= 0x08 << uint(r.Intn(2))
		}
		if !model.ValidUUID(string(b)) {
			return string(b)
		}
	}
}

// idStringer prints as a canonical UUID but is not a string: as an _id it is malformed like any other non-string.
type idStringer struct{ s string }

func (i idStringer) String() string { return i.s }

var someUUID = uuid.Must(uuid.FromString("0a1b2c3d-4e5f-4a6b-8c7d-9e0f1a2b3c4d"))

var malformedIDs = []any{someUUID, &someUUID, idStringer{"0a1b2c3d-4e5f-4a6b-8c7d-9e0f1a2b3c4e"}, []byte("0a1b2c3d-4e5f-4a6b-8c7d-9e0f1a2b3c4f"), "not-a-uuid", "12345678-1234-1234-1234-12345678901", "g2345678-1234-1234-1234-123456789012", int64(5), true, "12345678-1234-1234-1234-1234567890123", " 2345678-1234-1234-1234-123456789012"}

func (d *seqRun) newDocs(coll string, n int) []map[string]any {
	sch := d.schemaOf(coll)
	docs := make([]map[string]any, n)
	supply := d.r.Intn(3) // 0: generated ids, 1: supplied, 2: mixed
	if d.cfg.SharedIDs || d.cfg.SupplyIDs {
		supply = 1
	}
	for i := range docs {
		docs[i] = d.r.Doc(sch)
		if supply == 1 || (supply == 2 && d.r.Bool()) {
			docs[i]["_id"] = d.freshID()
		} else if d.r.P(10) && !d.cfg.SupplyIDs {
			docs[i]["_id"] = "" // treated as absent
		}
		if d.r.P(2) {
			docs[i]["_expiresAt"] = time.Date(2100, 1, 1, 0, 0, 0, 0, time.UTC)
		} else if d.r.P(2) {
			// an expiration that has passed whatever the clock says: clover stores, counts and returns such a document
			// like any other (nothing ever removes it), so it must be indexed like any other
			docs[i]["_expiresAt"] = time.Date(1990, 5, 17, 3, 4, 5, 6, time.FixedZone("", 3600))
		}
	}
	// a hostile batch now and then: duplicate or malformed at a random position
	if n > 0 && d.r.P(d.cfg.W["hostileBatchPct"]) {
		pos := d.r.Intn(n)
		switch d.r.Intn(4) {
		case 0: // duplicate of an existing document
			if mc := d.coll(coll); mc != nil && len(mc.Docs) > 0 {
				docs[pos]["_id"] = gen.Pick(d.r, mc.IDs())
			}
		case 1: // duplicate of an earlier document of the batch
			if pos > 0 {
				if id, ok := docs[d.r.Intn(pos)]["_id"].(string); ok && id != "" {
					docs[pos]["_id"] = id
				}
			}
		case 2:
			docs[pos]["_id"] = gen.Pick(d.r, malformedIDs)
			if d.r.Bool() {
				docs[pos]["_id"] = nearlyUUID(d.r)
			}
			if d.r.Bool() {
				docs[pos]["_expiresAt"] = time.Date(2100, 6, 1, 0, 0, 0, 0, time.UTC) // a valid expiration must not hide the bad id
			}
		default:
			docs[pos]["_expiresAt"] = "tomorrow"
		}
	}
	return docs
}

func (d *seqRun) sampleDocs(coll string, n int) []map[string]any {
	mc := d.coll(coll)
	if mc == nil || len(mc.Docs) == 0 {
		return nil
	}
	ids := mc.IDs()
	out := make([]map[string]any, 0, n)
	for i := 0; i < n; i++ {
		out = append(out, mc.Docs[gen.Pick(d.r, ids)])
	}
	return out
}

func (d *seqRun) critCtx(coll string) *gen.CritCtx {
	cx := &gen.CritCtx{S: d.schemaOf(coll), Docs: d.sampleDocs(coll, 12), GoTypes: true}
	if mc := d.coll(coll); mc != nil {
		cx.Bias = mc.IndexList()
	}
	return cx
}

func (d *seqRun) pickQuery(coll string) *model.Query {
	n := 0
	var bias []string
	if mc := d.coll(coll); mc != nil {
		n = len(mc.Docs)
		bias = mc.IndexList()
	}
	return d.r.Query(&gen.QueryCtx{Crit: d.critCtx(coll), Coll: coll, N: n, SortBias: bias,
		CritPct: d.cfg.CritPct, SortPct: d.cfg.SortPct, WinPct: d.cfg.WinPct})
}

func (d *seqRun) pickUpd(coll string, bulkFunc bool) *Upd {
	sch := d.schemaOf(coll)
	u := &Upd{Name: "upd", Set: map[string]any{}}
	u.InPlace = d.r.P(40)
	if bulkFunc && d.r.P(15) {
		u.Delete = true
		u.Name = "to_nil"
		return u
	}
	if bulkFunc && d.r.P(12) {
		// one call that removes some of the selected documents and rewrites the others
		u.DeleteSome = true
		u.Name = "delete_some"
	}
	if d.r.P(3) && !u.DeleteSome {
		// an update that changes nothing: an empty (or nil) map, an updater returning its argument as it is
		u.Name = "no_change"
		u.NilMap = d.r.Bool()
		return u
	}
	nset := d.r.Range(1, 2)
	fields := append([]string(nil), sch.Fields...)
	if mc := d.coll(coll); mc != nil && len(mc.Indexes) > 0 && d.r.P(60) {
		// rewrite the indexed field itself
		fields = mc.IndexList()
	}
	for i := 0; i < nset; i++ {
		f := gen.Pick(d.r, fields)
		if f == "_id" {
			continue
		}
		if f == "n" || (strings.HasPrefix(f, "n.") && d.r.P(12)) {
			// rewrite the whole object (an index may sit on n.a / n.b, i.e. below the written key)
			conflict := false
			for k := range u.Set {
				if strings.HasPrefix(k, "n") {
					conflict = true
				}
			}
			if !conflict {
				switch d.r.Intn(3) {
				case 0:
					u.Set["n"] = map[string]any{"a": d.r.SmallInt(), "b": d.r.Str()}
				case 1:
					u.Set["n"] = d.r.SmallInt()
				default:
					u.Set["n"] = map[string]any{"a": d.r.Scalar()}
				}
			}
			continue
		}
		if strings.HasPrefix(f, "n.") {
			if _, whole := u.Set["n"]; whole {
				continue
			}
		}
		if p, ok := sch.Prof[f]; ok {
			u.Set[f] = d.r.Value(p)
		} else {
			u.Set[f] = d.r.Scalar()
		}
	}
	if d.r.P(20) {
		u.Set["p"] = int64(d.ops) // a unique marker value
	}
	if d.r.P(d.cfg.W["rewriteIDPct"]) {
		if mc := d.coll(coll); mc != nil && len(mc.Docs) > 0 && d.r.Bool() {
			u.NewID = gen.Pick(d.r, mc.IDs())
		} else {
			u.NewID = d.r.UUID()
		}
		u.Name = "rewrite_id"
		if d.r.P(35) {
			u.SpellingOfOwnID = true // another spelling (letter case) of the document's own id
		} else if d.r.P(30) {
			// a dotted path below _id replaces the id string by an object
			u.NewID = ""
			u.Set["_id.rev"] = int64(d.r.Intn(5))
			u.Name = "rewrite_id_dotted"
		}
	}
	if d.r.P(d.cfg.W["badExpPct"]) {
		u.BadExp = true
		u.Name = "bad_expires"
	}
	return u
}

func (d *seqRun) indexField(coll string) string {
	sch := d.schemaOf(coll)
	fs := sch.IndexableFields()
	if d.r.P(4) {
		return "_id"
	}
	if d.r.P(4) {
		return "nope"
	}
	return gen.Pick(d.r, fs)
}

// step executes one random operation; returns the collection written (if any).
func (d *seqRun) step() (written string, wasWrite bool) {
	op := d.pickOp()
	switch op {
	case "CreateCollection":
		name := gen.Pick(d.r, collNames)
		sch := d.newSchema()
		if d.cfg.SharedIDs {
			// collections share one schema half of the time so that criteria hit everywhere
			if n, ok := d.existingColl(); ok && d.r.Bool() {
				sch = d.schemas[n]
			}
		}
		d.CreateCollection(name, sch)
		return name, true
	case "DropCollection":
		name := d.pickColl()
		d.DropCollection(name)
		if d.r.P(50) && !d.failed { // drop followed by re-creation under the same name
			d.CreateCollection(name, d.newSchema())
			if mc := d.coll(name); mc != nil && !d.failed {
				d.CompareCollection(name, "recreate:not-empty", "DropCollection+CreateCollection")
				d.ListIndexes(name)
			}
		}
		return name, true
	case "HasCollection":
		d.HasCollection(d.pickColl())
	case "ListCollections":
		d.ListCollections()
	case "CreateIndex":
		c := d.pickColl()
		d.CreateIndex(c, d.indexField(c))
		return c, true
	case "DropIndex":
		c := d.pickColl()
		f := d.indexField(c)
		if mc := d.coll(c); mc != nil && len(mc.Indexes) > 0 && d.r.P(80) {
			f = gen.Pick(d.r, mc.IndexList())
		}
		d.DropIndex(c, f)
		if d.r.P(35) && !d.failed {
			d.CreateIndex(c, f)
		}
		return c, true
	case "HasIndex":
		c := d.pickColl()
		d.HasIndex(c, d.indexField(c))
	case "ListIndexes":
		d.ListIndexes(d.pickColl())
	case "Insert":
		c := d.pickColl()
		n := d.r.Range(0, 8)
		if d.r.P(15) {
			n = d.r.Range(9, 40)
		}
		d.Insert(c, d.newDocs(c, n), false)
		return c, true
	case "InsertOne":
		c := d.pickColl()
		d.Insert(c, d.newDocs(c, 1), true)
		return c, true
	case "Save":
		c := d.pickColl()
		doc := d.r.Doc(d.schemaOf(c))
		k := d.r.Intn(4)
		if d.cfg.SupplyIDs && k == 0 {
			k = 1
		}
		switch k {
		case 0: // no id: insert
		case 1:
			doc["_id"] = d.freshID()
		default:
			doc["_id"] = d.pickID(c)
		}
		d.Save(c, doc)
		return c, true
	case "ReplaceById":
		c := d.pickColl()
		id := d.pickID(c)
		doc := d.r.Doc(d.schemaOf(c))
		doc["_id"] = id
		if d.r.P(8) {
			doc["_id"] = d.pickID(c) // possibly mismatching
		}
		if d.r.P(d.cfg.W["badExpPct"]) {
			doc["_expiresAt"] = int64(3)
		}
		d.ReplaceById(c, id, doc)
		return c, true
	case "UpdateById":
		c := d.pickColl()
		d.UpdateById(c, d.pickID(c), d.pickUpd(c, false))
		return c, true
	case "Update":
		c := d.pickColl()
		u := d.pickUpd(c, false)
		u.InPlace = false
		d.Bulk(BulkUpdateMap, d.bulkQuery(c), u)
		return c, true
	case "UpdateFunc":
		c := d.pickColl()
		d.Bulk(BulkUpdateFunc, d.bulkQuery(c), d.pickUpd(c, true))
		return c, true
	case "Delete":
		c := d.pickColl()
		d.Bulk(BulkDelete, d.bulkQuery(c), nil)
		return c, true
	case "DeleteById":
		c := d.pickColl()
		d.DeleteById(c, d.pickID(c))
		return c, true
	case "FindAll":
		c := d.pickColl()
		d.FindAll(d.pickQuery(c))
	case "Count":
		c := d.pickColl()
		d.Count(d.pickQuery(c))
	case "FindById":
		c := d.pickColl()
		d.FindById(c, d.pickID(c))
	case "Derived":
		if c, ok := d.existingColl(); ok {
			d.Derived(d.pickQuery(c))
		}
	case "CreateByQuery":
		src := d.pickColl()
		dst := gen.Pick(d.r, collNames)
		d.CreateCollectionByQuery(dst, d.pickQuery(src))
		return dst, true
	case "FailedCommit":
		// a write whose commit the store refuses: it must report the failure and leave no trace (also none in any cache of the handle)
		if d.h.MS == nil {
			break
		}
		c, ok := d.existingColl()
		if !ok {
			break
		}
		mc := d.coll(c)
		var name string
		var f func() error
		switch d.r.Intn(5) {
		case 0, 1:
			docs := d.newDocsClean(c, d.r.Range(1, 4))
			name = fmt.Sprintf("Insert(%q, %d docs) with a failing commit", c, len(docs))
			f = func() error {
				cds := make([]*document.Document, len(docs))
				for i, x := range docs {
					cds[i] = model.NewDoc(x)
				}
				return d.h.DB.Insert(c, cds...)
			}
		case 2:
			if len(mc.Docs) == 0 {
				return
			}
			id := gen.Pick(d.r, mc.IDs())
			name = fmt.Sprintf("DeleteById(%q,%q) with a failing commit", c, id)
			f = func() error { return d.h.DB.DeleteById(c, id) }
		case 3:
			fld := d.indexField(c)
			if mc.Indexes[fld] {
				name = fmt.Sprintf("DropIndex(%q,%q) with a failing commit", c, fld)
				f = func() error { return d.h.DB.DropIndex(c, fld) }
			} else {
				name = fmt.Sprintf("CreateIndex(%q,%q) with a failing commit", c, fld)
				f = func() error { return d.h.DB.CreateIndex(c, fld) }
			}
		default:
			if len(mc.Docs) == 0 {
				return
			}
			name = fmt.Sprintf("Delete(all of %q) with a failing commit", c)
			f = func() error { return d.h.DB.Delete(query.NewQuery(c)) }
		}
		d.h.MS.FailNextCommit()
		got, err := d.run(name, false, f)
		if d.lastSt != nil && d.lastSt.Injected == 0 {
			// the operation never committed a mutation (e.g. nothing to delete): nothing was refused
			d.c.Log("%s -> %s (no commit reached)", name, got)
			d.h.MS.DisarmFailCommit()
			// the model must follow a successful operation: simplest is to re-synchronise from the store
			d.resync(c)
			return c, true
		}
		d.expect(name, []string{EAny}, got, err)
		return c, true
	case "Reopen":
		if d.h.Persistent() {
			if err := d.h.Reopen(d.c); err != nil {
				d.viol("reopen:error", "close/reopen failed: %v", err)
				return
			}
			d.c.Log("Close(); Open()")
			d.c.Count("reopens", 1)
			d.Audit("Reopen")
		}
	}
	return "", false
}

// resync re-reads one collection into the model (used only when an operation's effect cannot be predicted).
func (d *seqRun) resync(c string) {
	docs, err := d.h.DB.FindAll(query.NewQuery(c))
	if err != nil {
		d.viol("resync", "FindAll(%q): %v", c, err)
		return
	}
	mc := model.NewColl()
	for _, x := range docs {
		mc.Docs[x.ObjectId()] = model.FromDoc(x)
		d.noteID(c, x.ObjectId())
	}
	infos, _ := d.h.DB.ListIndexes(c)
	for _, i := range infos {
		mc.Indexes[i.Field] = true
	}
	d.m.Colls[c] = mc
}

// bulkQuery draws a query for a bulk write: mostly without a window.
func (d *seqRun) bulkQuery(c string) *model.Query {
	q := d.pickQuery(c)
	if d.r.P(70) {
		q.HasSkip, q.HasLimit = false, false
	}
	if q.Crit == nil && d.r.P(70) {
		q.Crit = d.r.PlannerCrit(d.critCtx(c))
	}
	return q
}

func (s *S) CreateCollectionByQuery(dst string, q *model.Query) {
	n := fmt.Sprintf("CreateCollectionByQuery(%q, %s)", dst, q)
	got, err := s.run(n, false, func() error { return s.h.DB.CreateCollectionByQuery(dst, q.ToClover()) })
	src := s.coll(q.Coll)
	wantSet := map[string]bool{}
	if s.coll(dst) != nil {
		wantSet[ECollYes] = true
	}
	if src == nil {
		wantSet[ECollNo] = true
	}
	if len(wantSet) > 0 {
		s.expect(n, keys(wantSet), got, err)
		return
	}
	ids, ok, inc := model.SelectDeterministic(q, src.Docs)
	if !s.expect(n, []string{OK}, got, err) {
		return
	}
	nc := model.NewColl()
	s.m.Colls[dst] = nc
	s.schemas[dst] = s.schemas[q.Coll]
	if ok && !inc {
		for _, id := range ids {
			nc.Docs[id] = model.CopyDoc(src.Docs[id])
			s.noteID(dst, id)
		}
		return
	}
	// the selection was legitimately ambiguous: adopt what was created after validating it
	var res []map[string]any
	_, e := s.run("FindAll(dst)", true, func() error {
		ds, e := s.h.DB.FindAll((&model.Query{Coll: dst}).ToClover())
		res = model.FromDocs(ds)
		return e
	})
	if e != nil {
		s.viol("createbyquery:read", "reading the new collection failed: %v", e)
		return
	}
	if p, inc2 := model.CheckResult(q, src.Docs, res); p != "" && !inc2 && q.EffSort() == nil {
		s.viol("createbyquery:content", "%s: new collection is not a valid answer to the query: %s", n, p)
		return
	}
	for _, dct := range res {
		id, _ := dct["_id"].(string)
		nc.Docs[id] = dct
		s.noteID(dst, id)
	}
}

// RunSeq is the generic sequential differential history.
func RunSeq(c *core.Ctx, cfg *SeqCfg) {
	backend := gen.Pick(c.R, cfg.Backends)
	runSeqOn(c, cfg, backend, c.R, false)
}

// runSeqOn runs one history on a given backend; with transcript it returns
// every outcome and every result sequence, for cross-backend comparison.
func runSeqOn(c *core.Ctx, cfg *SeqCfg, backend string, r *gen.Rng, transcript bool) []string {
	h, err := Open(c, backend, "")
	if err != nil {
		c.Violate("open-error", "opening %s failed: %v", backend, err)
		return nil
	}
	defer h.Destroy()
	d := &seqRun{S: NewS(c, h), cfg: cfg, r: r}
	d.S.r = r
	d.recording = transcript
	d.opCells = cfg.Focus == "ids" || cfg.Focus == "colls" || cfg.Focus == "indexes"
	for k := range cfg.W {
		if strings.HasSuffix(k, "Pct") {
			continue
		}
		d.opKeys = append(d.opKeys, k)
	}
	sort.Strings(d.opKeys)
	for _, k := range d.opKeys {
		d.opW = append(d.opW, cfg.W[k])
	}
	if cfg.SharedIDs {
		for i := 0; i < 24; i++ {
			d.pool = append(d.pool, r.UUIDMaybeUpper())
		}
	}
	// set-up: collections, initial load, indexes before / after the data
	ncoll := r.Range(cfg.NColls[0], cfg.NColls[1])
	names := append([]string(nil), collNames...)
	r.Shuffle(len(names), func(i, j int) { names[i], names[j] = names[j], names[i] })
	var shared *gen.Schema
	if cfg.SharedIDs {
		shared = d.newSchema()
	}
	if cfg.IDStyles {
		d.idStyle = r.Intn(3)
	}
	for i := 0; i < ncoll && !d.failed; i++ {
		sch := d.newSchema()
		if shared != nil && r.Bool() {
			sch = shared
		}
		name := names[i]
		d.CreateCollection(name, sch)
		idxBefore := r.Intn(3)
		for k := 0; k < idxBefore && !d.failed; k++ {
			d.CreateIndex(name, d.indexField(name))
		}
		if n := gen.Pick(r, cfg.InitDocs); n > 0 && !d.failed {
			d.Insert(name, d.newDocsClean(name, n), false)
		}
		idxAfter := r.Intn(3)
		for k := 0; k < idxAfter && !d.failed; k++ {
			d.CreateIndex(name, d.indexField(name))
		}
	}
	nops := r.Range(cfg.Ops[0], cfg.Ops[1])
	nextAudit := r.Range(cfg.AuditEvery[0], cfg.AuditEvery[1])
	lastOp := "setup"
	for i := 0; i < nops && !d.failed; i++ {
		before := len(c.Hist)
		coll, wrote := d.step()
		if len(c.Hist) > before {
			lastOp = c.Hist[len(c.Hist)-1]
			if j := strings.Index(lastOp, " ->"); j > 0 {
				lastOp = lastOp[:j]
			}
		}
		if d.failed {
			break
		}
		if wrote {
			if mc := d.coll(coll); mc != nil && (cfg.MaxDocsForQueries == 0 || len(mc.Docs) <= cfg.MaxDocsForQueries) {
				for k := 0; k < cfg.Queries && !d.failed; k++ {
					if cfg.Derived {
						d.Derived(d.pickQuery(coll))
					} else {
						d.FindAll(d.pickQuery(coll))
					}
				}
			}
			if cfg.CheckOthers {
				for _, other := range d.m.Names() {
					if other != coll && !d.failed {
						d.CompareCollection(other, "isolation:other-collection-changed", lastOp)
						d.ListIndexes(other)
						d.Count(&model.Query{Coll: other})
					}
				}
				if !d.failed {
					d.ListCollections()
				}
			}
			if cfg.IDSweep && !d.failed {
				for _, name := range d.m.Names() {
					for _, id := range keys(d.ever[name]) {
						if d.failed {
							break
						}
						d.FindById(name, id)
					}
				}
			}
		}
		if cfg.AuditAfterIndexOps && !d.failed && (strings.HasPrefix(lastOp, "CreateIndex") || strings.HasPrefix(lastOp, "DropIndex")) {
			d.AuditBehaviour()
		}
		nextAudit--
		if nextAudit <= 0 && !d.failed {
			d.Audit(lastOp)
			nextAudit = r.Range(cfg.AuditEvery[0], cfg.AuditEvery[1])
			total := 0
			for _, mc := range d.m.Colls {
				total += len(mc.Docs)
			}
			if total > 400 {
				nextAudit *= 4 // audits rebuild the whole state: space them out on large databases
			}
		}
	}
	if !d.failed {
		d.Audit(lastOp)
	}
	if !d.failed && cfg.AfterClose {
		d.afterClose()
	}
	if !d.failed && !transcript {
		c.Sample(map[string]any{"backend": backend, "operations": d.ops, "history_head": head(c.Hist, 12)})
	}
	return d.transcript
}

// afterClose closes the handle and calls every kind of operation on it: each
// must return (an error or a result), never panic or block.
func (d *seqRun) afterClose() {
	name, _ := d.existingColl()
	id := d.r.UUID()
	q := (&model.Query{Coll: name}).ToClover()
	doc := map[string]any{"_id": id, "a": int64(1)}
	for round := 0; round < 2; round++ {
		err := d.h.Close()
		if round == 1 {
			err = Do(func() error { return d.h.DB.Close() }) // a second Close
		}
		d.closedCall("Close", err)
		calls := []struct {
			n string
			f func() error
		}{
			{"CreateCollection", func() error { return d.h.DB.CreateCollection("zz") }},
			{"DropCollection", func() error { return d.h.DB.DropCollection(name) }},
			{"HasCollection", func() error { _, e := d.h.DB.HasCollection(name); return e }},
			{"ListCollections", func() error { _, e := d.h.DB.ListCollections(); return e }},
			{"CreateIndex", func() error { return d.h.DB.CreateIndex(name, "a") }},
			{"DropIndex", func() error { return d.h.DB.DropIndex(name, "a") }},
			{"HasIndex", func() error { _, e := d.h.DB.HasIndex(name, "a"); return e }},
			{"ListIndexes", func() error { _, e := d.h.DB.ListIndexes(name); return e }},
			{"Insert", func() error { return d.h.DB.Insert(name, model.NewDoc(doc)) }},
			{"InsertOne", func() error { _, e := d.h.DB.InsertOne(name, model.NewDoc(doc)); return e }},
			{"Save", func() error { return d.h.DB.Save(name, model.NewDoc(doc)) }},
			{"ReplaceById", func() error { return d.h.DB.ReplaceById(name, id, model.NewDoc(doc)) }},
			{"UpdateById", func() error {
				return d.h.DB.UpdateById(name, id, (&Upd{Set: map[string]any{"a": int64(2)}}).callback(new([]updCall)))
			}},
			{"Update", func() error { return d.h.DB.Update(q, map[string]any{"a": int64(2)}) }},
			{"UpdateFunc", func() error {
				return d.h.DB.UpdateFunc(q, (&Upd{Set: map[string]any{"a": int64(2)}}).callback(new([]updCall)))
			}},
			{"Delete", func() error { return d.h.DB.Delete(q) }},
			{"DeleteById", func() error { return d.h.DB.DeleteById(name, id) }},
			{"FindAll", func() error { _, e := d.h.DB.FindAll(q); return e }},
			{"FindFirst", func() error { _, e := d.h.DB.FindFirst(q); return e }},
			{"FindById", func() error { _, e := d.h.DB.FindById(name, id); return e }},
			{"Count", func() error { _, e := d.h.DB.Count(q); return e }},
			{"Exists", func() error { _, e := d.h.DB.Exists(q); return e }},
			{"ForEach", func() error { return d.h.DB.ForEach(q, func(*document.Document) bool { return true }) }},
			{"ExportCollection", func() error { return d.h.DB.ExportCollection(name, d.c.Scratch+"/closed-export.json") }},
			{"ImportCollection", func() error { return d.h.DB.ImportCollection("zz2", d.c.Scratch+"/nonexistent.json") }},
			{"CreateCollectionByQuery", func() error { return d.h.DB.CreateCollectionByQuery("zz3", q) }},
		}
		for _, cl := range calls {
			if d.failed {
				return
			}
			d.closedCall(cl.n, Do(cl.f))
		}
	}
}

func (d *seqRun) closedCall(n string, err error) {
	d.c.Eval(1)
	if pe, ok := IsPanic(err); ok {
		d.c.Log("%s after Close -> PANIC %v", n, pe.Val)
		d.viol(PanicSig(pe)+":after-close", "%s on a closed %s handle panicked: %v\n%s", n, d.h.Backend, pe.Val, trim(pe.Stack, 25))
		return
	}
	cls := "error"
	if err == nil {
		cls = "ok"
	}
	d.c.Log("%s after Close -> %s", n, cls)
	d.tr("%s after Close -> %s", n, cls)
	d.c.Cell("after-close|%s|%s|%s", n, cls, backendClass(d.h.Backend))
}

func head(h []string, n int) []string {
	if len(h) > n {
		return h[:n]
	}
	return h
}

// newDocsClean draws documents that must all be accepted (initial load).
func (d *seqRun) newDocsClean(coll string, n int) []map[string]any {
	sch := d.schemaOf(coll)
	docs := make([]map[string]any, n)
	seen := map[string]bool{}
	for i := range docs {
		docs[i] = d.r.Doc(sch)
		id := d.freshID()
		for seen[id] {
			id = d.r.UUIDMaybeUpper()
		}
		seen[id] = true
		docs[i]["_id"] = id
	}
	return docs
}
