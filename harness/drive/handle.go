// Package drive holds the engines: workloads plus the monitors that watch them.
package drive

import (
	"errors"
	"fmt"
	"os"
	"path/filepath"
	"runtime/debug"
	"strings"

	badger "github.com/dgraph-io/badger/v4"
	clover "github.com/ostafen/clover/v2"
	"github.com/ostafen/clover/v2/store"
	badgerstore "github.com/ostafen/clover/v2/store/badger"
	bboltstore "github.com/ostafen/clover/v2/store/bbolt"

	"verif/harness/core"
	"verif/harness/mon"
)

// Backends
const (
	BBolt      = "bbolt"       // store/bbolt behind the monitor
	BBoltRaw   = "bbolt-open"  // clover.Open(dir): the default path, no monitor
	BadgerMem  = "badger-mem"  // store/badger in memory behind the monitor
	BadgerDisk = "badger-disk" // store/badger on disk behind the monitor
	BadgerShip = "badger-ship" // badgerstore.Open(dir): shipped default options, behind the monitor
	BadgerRaw  = "badger-open" // store/badger on disk handed to clover directly: the store's real buffer-reuse behaviour, no monitor in between
)

type Handle struct {
	DB      *clover.DB
	MS      *mon.Store // nil for BBoltRaw
	Inner   store.Store
	Backend string
	Dir     string
	closed  bool
}

// PanicError is what Do returns when the public call panicked.
type PanicError struct {
	Val   any
	Stack string
}

func (p *PanicError) Error() string { return fmt.Sprintf("PANIC: %v", p.Val) }

func IsPanic(err error) (*PanicError, bool) {
	var pe *PanicError
	if errors.As(err, &pe) {
		return pe, true
	}
	return nil, false
}

func PanicSig(pe *PanicError) string {
	lines := strings.Split(pe.Stack, "\n")
	seen := false
	for _, l := range lines {
		if strings.HasPrefix(l, "panic(") {
			seen = true
			continue
		}
		if seen && strings.Contains(l, "github.com/ostafen/clover") && !strings.HasPrefix(l, "\t") {
			if i := strings.LastIndex(l, "("); i > 0 {
				l = l[:i]
			}
			return "panic:" + l
		}
	}
	return "panic:unknown"
}

// Do runs one public call, turning a panic into a *PanicError.
func Do(f func() error) (err error) {
	core.Tick()
	defer func() {
		if r := recover(); r != nil {
			err = &PanicError{Val: r, Stack: string(debug.Stack())}
		}
	}()
	return f()
}

func badgerOpts(dir string, mem bool) badger.Options {
	o := badger.DefaultOptions(dir).WithLoggingLevel(badger.ERROR).
		WithValueLogFileSize(16 << 20).WithNumMemtables(2).
		WithBlockCacheSize(4 << 20).WithIndexCacheSize(0).WithNumCompactors(2).WithValueThreshold(64 << 10)
	if mem {
		o = o.WithInMemory(true)
	}
	return o
}

// OpenInner opens the bare store of a backend.
func OpenInner(backend, dir string) (store.Store, error) {
	switch backend {
	case BBolt:
		if err := os.MkdirAll(dir, 0755); err != nil {
			return nil, err
		}
		return bboltstore.Open(dir)
	case BadgerMem:
		return badgerstore.OpenWithOptions(badgerOpts("", true))
	case BadgerDisk:
		if err := os.MkdirAll(dir, 0755); err != nil {
			return nil, err
		}
		return badgerstore.OpenWithOptions(badgerOpts(dir, false))
	case BadgerShip:
		if err := os.MkdirAll(dir, 0755); err != nil {
			return nil, err
		}
		// literally the shipped path: whatever options Open(dir) chooses are the ones users get
		return badgerstore.Open(dir)
	}
	return nil, fmt.Errorf("unknown backend %q", backend)
}

var dirSeq int

// Open opens a database of the given backend in a fresh sub-directory of the
// worker's scratch directory (or in dir when given).
func Open(c *core.Ctx, backend, dir string) (*Handle, error) {
	if dir == "" {
		dirSeq++
		dir = filepath.Join(c.Scratch, fmt.Sprintf("db%d", dirSeq))
	}
	h := &Handle{Backend: backend, Dir: dir}
	if backend == BBoltRaw {
		if err := os.MkdirAll(dir, 0755); err != nil {
			return nil, err
		}
		db, err := clover.Open(dir)
		if err != nil {
			return nil, err
		}
		h.DB = db
		return h, nil
	}
	if backend == BadgerRaw {
		inner, err := OpenInner(BadgerDisk, dir)
		if err != nil {
			return nil, err
		}
		h.Inner = inner
		db, err := clover.OpenWithStore(inner)
		if err != nil {
			return nil, err
		}
		h.DB = db
		return h, nil
	}
	inner, err := OpenInner(backend, dir)
	if err != nil {
		return nil, err
	}
	h.Inner = inner
	h.MS = mon.Wrap(inner)
	db, err := clover.OpenWithStore(h.MS)
	if err != nil {
		return nil, err
	}
	h.DB = db
	return h, nil
}

// OpenMem opens a database over the harness's own in-memory store.
func OpenMem() *Handle {
	ms := mon.NewMemStore()
	db, _ := clover.OpenWithStore(ms)
	return &Handle{DB: db, Inner: ms, Backend: "mem"}
}

func (h *Handle) Close() error {
	if h.closed {
		return nil
	}
	h.closed = true
	return Do(func() error { return h.DB.Close() })
}

// Destroy closes the handle and removes its directory.
func (h *Handle) Destroy() {
	if h.MS != nil && h.MS.OpenTx() > 0 {
		// a leaked write transaction makes bbolt's Close wait for ever: the leak has been reported, just drop the files
		h.closed = true
	}
	h.Close()
	if h.Dir != "" && h.Backend != "mem" {
		os.RemoveAll(h.Dir)
	}
}

// Reopen closes and reopens an on-disk backend in place.
func (h *Handle) Reopen(c *core.Ctx) error {
	if err := h.Close(); err != nil {
		return fmt.Errorf("close: %w", err)
	}
	n, err := Open(c, h.Backend, h.Dir)
	if err != nil {
		return err
	}
	*h = *n
	return nil
}

func (h *Handle) Persistent() bool {
	return h.Backend == BBolt || h.Backend == BBoltRaw || h.Backend == BadgerDisk || h.Backend == BadgerShip || h.Backend == BadgerRaw
}

// Snapshot lists the raw store content (nil when there is no monitor seam).
func (h *Handle) Snapshot() ([]mon.KV, error) {
	if h.Inner == nil {
		return nil, errors.New("no inner store")
	}
	return mon.Snapshot(h.Inner)
}

func (h *Handle) BeginOp(trace bool) {
	if h.MS != nil {
		h.MS.BeginOp(trace)
	}
}

func (h *Handle) EndOp() *mon.OpStats {
	if h.MS != nil {
		return h.MS.EndOp()
	}
	return nil
}

func pickBackend(c *core.Ctx) string {
	switch c.R.Intn(10) {
	case 0, 1, 2, 3, 4:
		return BBolt
	case 5:
		return BBoltRaw
	case 6, 7, 8:
		return BadgerMem
	default:
		return BadgerDisk
	}
}
