package drive

import (
	"errors"
	"fmt"
	"sort"
	"strings"
	"time"

	badger "github.com/dgraph-io/badger/v4"
	clover "github.com/ostafen/clover/v2"
	"github.com/ostafen/clover/v2/document"
	"github.com/ostafen/clover/v2/index"

	"verif/harness/core"
	"verif/harness/gen"
	"verif/harness/model"
	"verif/harness/mon"
)

// Outcome classes of a public call.
const (
	OK       = "ok"
	ECollNo  = "ErrCollectionNotExist"
	ECollYes = "ErrCollectionExist"
	EIdxYes  = "ErrIndexExist"
	EIdxNo   = "ErrIndexNotExist"
	EDocNo   = "ErrDocumentNotExist"
	EDup     = "ErrDuplicateKey"
	EOther   = "error"
	EAny     = "anyerr" // expectation only
	EPanic   = "panic"
)

func Classify(err error) string {
	if err == nil {
		return OK
	}
	if _, p := IsPanic(err); p {
		return EPanic
	}
	switch {
	case errors.Is(err, clover.ErrCollectionNotExist):
		return ECollNo
	case errors.Is(err, clover.ErrCollectionExist):
		return ECollYes
	case errors.Is(err, clover.ErrIndexExist):
		return EIdxYes
	case errors.Is(err, clover.ErrIndexNotExist):
		return EIdxNo
	case errors.Is(err, clover.ErrDocumentNotExist):
		return EDocNo
	case errors.Is(err, clover.ErrDuplicateKey):
		return EDup
	}
	return EOther
}

func isBadger(backend string) bool { return backendClass(backend) == "badger" }

func accepts(want []string, got string) bool {
	for _, w := range want {
		if w == got {
			return true
		}
		if w == EAny && got != OK && got != EPanic {
			return true
		}
	}
	return false
}

// S is one sequential differential run: a real database next to the model.
type S struct {
	c           *core.Ctx
	r           *gen.Rng // the stream driving this run (c.R unless the run is replicated)
	h           *Handle
	m           *model.DB
	budgetExtra int // added to the call budget of the next operation (size of its own input)
	schemas     map[string]*gen.Schema
	ever        map[string]map[string]bool // ids ever used, per collection
	genIDs      map[string]bool            // every id clover generated in this run
	ops         int
	failed      bool   // a violation was recorded: stop the case
	plan        string // plan kind of the last read (coverage only)
	lastSt      *mon.OpStats
	opCells     bool // record <operation|outcome|backend> coverage cells
	recording   bool
	transcript  []string
}

// tr appends a line to the cross-backend transcript.
func (s *S) tr(format string, args ...any) {
	if s.recording {
		s.transcript = append(s.transcript, fmt.Sprintf(format, args...))
	}
}

func idsOf(ds []map[string]any) []string {
	ids := make([]string, len(ds))
	for i, d := range ds {
		ids[i], _ = d["_id"].(string)
	}
	return ids
}

func NewS(c *core.Ctx, h *Handle) *S {
	c.Backend = h.Backend
	if h.MS != nil {
		// the calling goroutine issues every operation; work another goroutine does on the store later is held back
		// until three more operations have started (see mon.Store.SetDriver)
		h.MS.SetDriver(3)
	}
	return &S{c: c, r: c.R, h: h, m: model.NewDB(), schemas: map[string]*gen.Schema{}, ever: map[string]map[string]bool{}, genIDs: map[string]bool{}}
}

func (s *S) viol(sig, format string, args ...any) {
	s.failed = true
	s.c.Violate(sig, format, args...)
}

// run executes one public call under store accounting.
func (s *S) run(name string, read bool, f func() error) (string, error) {
	s.h.BeginOp(false)
	if s.h.MS != nil {
		// call budget: a deterministic replacement for a time-out (e.g. an index-driven update chasing its own writes)
		docs := 0
		for _, mc := range s.m.Colls {
			docs += len(mc.Docs)
		}
		s.h.MS.SetBudget(20000 + 600*docs + s.budgetExtra)
		s.budgetExtra = 0
	}
	err := Do(f)
	st := s.h.EndOp()
	if st != nil && st.Runaway {
		s.c.Log("%s -> RUNAWAY after %d store calls", name, st.Calls)
		s.viol("runaway:"+opName(name), "%s made more than %d store calls on a database of that size (runaway operation); the monitor started failing its calls to stop it", name, st.Calls)
		return EOther, err
	}
	s.lastSt = st
	s.ops++
	got := Classify(err)
	if pe, ok := IsPanic(err); ok {
		s.c.Log("%s -> PANIC %v", name, pe.Val)
		s.viol(PanicSig(pe), "%s panicked: %v\n%s", name, pe.Val, trim(pe.Stack, 30))
		return got, err
	}
	if st != nil {
		s.plan = planKind(st)
		if st.TxBegun != st.TxFinished {
			s.viol("tx-leak:"+opName(name), "%s left %d transaction(s) open (begun %d, finished %d)", name, st.TxBegun-st.TxFinished, st.TxBegun, st.TxFinished)
		}
		if err != nil && st.CommitsAfterMutation > 0 {
			s.viol("error-but-committed:"+opName(name), "%s returned error %q but committed a mutating transaction", name, err)
		}
		if read && (st.Sets+st.Deletes) > 0 {
			s.viol("read-mutates:"+opName(name), "%s is a read operation but issued %d Set and %d Delete store calls", name, st.Sets, st.Deletes)
		}
		if st.UseAfterFinish > 0 {
			s.viol("use-after-tx:"+opName(name), "%s made %d store calls on a finished transaction", name, st.UseAfterFinish)
		}
		if len(st.MutatingTx) > 1 {
			s.c.Count("ops_with_several_mutating_tx", 1)
		}
	}
	s.c.Count("op:"+opName(name), 1)
	return got, err
}

func planKind(st *mon.OpStats) string {
	switch {
	case st.IndexSeeks > 0 && st.ReverseCursors > 0:
		return "index-rev"
	case st.IndexSeeks > 0:
		return "index-fwd"
	default:
		return "scan"
	}
}

func opName(s string) string {
	if i := strings.IndexByte(s, '('); i > 0 {
		return s[:i]
	}
	return s
}

func trim(st string, n int) string {
	l := strings.Split(st, "\n")
	if len(l) > n {
		l = l[:n]
	}
	return strings.Join(l, "\n")
}

// expect compares the outcome class with the acceptable set.
func (s *S) expect(name string, want []string, got string, err error) bool {
	if got == EPanic {
		return false
	}
	s.c.Eval(1)
	if !accepts(want, got) && errors.Is(err, badger.ErrTxnTooBig) && isBadger(s.h.Backend) {
		// a capacity limit of the store (about 10 MB or 100 000 entries per transaction with badger's default
		// options), not a statement about the operation: the history ends here, neither held nor violated.
		// (What a refused oversized transaction may leave behind is decided by the oversized-operation engines.)
		s.c.Log("%s -> refused by the store: %v (transaction size limit; case inconclusive)", name, err)
		s.c.Inconclusive("store_transaction_size_limit")
		s.c.CapacityHit = true
		s.failed = true
		return false
	}
	if !accepts(want, got) {
		s.c.Log("%s -> %s (%v)", name, got, err)
		s.viol("outcome:"+opName(name)+":want-"+strings.Join(want, "|")+":got-"+got, "%s returned %s (%v), acceptable: %v", name, got, err, want)
		return false
	}
	s.c.Log("%s -> %s", name, got)
	s.tr("%s -> %s", name, got)
	if s.opCells {
		s.c.Cell("op|%s|%s|%s", opName(name), got, s.h.Backend)
	}
	return true
}

func (s *S) coll(name string) *model.Coll { return s.m.Colls[name] }

func (s *S) noteID(coll, id string) {
	if s.ever[coll] == nil {
		s.ever[coll] = map[string]bool{}
	}
	s.ever[coll][id] = true
}

// ------------------------------------------------------------- catalog ops

func (s *S) CreateCollection(name string, sch *gen.Schema) {
	got, err := s.run(fmt.Sprintf("CreateCollection(%q)", name), false, func() error { return s.h.DB.CreateCollection(name) })
	want := []string{OK}
	if s.coll(name) != nil {
		want = []string{ECollYes}
	}
	if s.expect(fmt.Sprintf("CreateCollection(%q)", name), want, got, err) && got == OK {
		s.m.Colls[name] = model.NewColl()
		s.schemas[name] = sch
	}
}

func (s *S) DropCollection(name string) {
	got, err := s.run(fmt.Sprintf("DropCollection(%q)", name), false, func() error { return s.h.DB.DropCollection(name) })
	want := []string{OK}
	if s.coll(name) == nil {
		want = []string{ECollNo}
	}
	if s.expect(fmt.Sprintf("DropCollection(%q)", name), want, got, err) && got == OK {
		delete(s.m.Colls, name)
	}
}

func (s *S) HasCollection(name string) {
	var has bool
	n := fmt.Sprintf("HasCollection(%q)", name)
	got, err := s.run(n, true, func() (e error) { has, e = s.h.DB.HasCollection(name); return })
	if s.expect(n, []string{OK}, got, err) {
		if has != (s.coll(name) != nil) {
			s.viol("catalog:HasCollection", "%s = %v, model says %v", n, has, s.coll(name) != nil)
		}
	}
}

func (s *S) ListCollections() {
	var names []string
	got, err := s.run("ListCollections()", true, func() (e error) { names, e = s.h.DB.ListCollections(); return })
	if s.expect("ListCollections()", []string{OK}, got, err) {
		s.tr("   names=%q", names)
		sort.Strings(names)
		want := s.m.Names()
		if strings.Join(names, "\x01") != strings.Join(want, "\x01") {
			s.viol("catalog:ListCollections", "ListCollections = %q, model says %q", names, want)
		}
	}
}

func (s *S) CreateIndex(coll, field string) {
	n := fmt.Sprintf("CreateIndex(%q,%q)", coll, field)
	got, err := s.run(n, false, func() error { return s.h.DB.CreateIndex(coll, field) })
	mc := s.coll(coll)
	want := []string{OK}
	if mc == nil {
		want = []string{ECollNo}
	} else if mc.Indexes[field] {
		want = []string{EIdxYes}
	}
	if s.expect(n, want, got, err) && got == OK {
		mc.Indexes[field] = true
	}
}

func (s *S) DropIndex(coll, field string) {
	n := fmt.Sprintf("DropIndex(%q,%q)", coll, field)
	got, err := s.run(n, false, func() error { return s.h.DB.DropIndex(coll, field) })
	mc := s.coll(coll)
	want := []string{OK}
	if mc == nil {
		want = []string{ECollNo}
	} else if !mc.Indexes[field] {
		want = []string{EIdxNo}
	}
	if s.expect(n, want, got, err) && got == OK {
		delete(mc.Indexes, field)
	}
}

func (s *S) HasIndex(coll, field string) {
	n := fmt.Sprintf("HasIndex(%q,%q)", coll, field)
	var has bool
	got, err := s.run(n, true, func() (e error) { has, e = s.h.DB.HasIndex(coll, field); return })
	mc := s.coll(coll)
	if mc == nil {
		s.expect(n, []string{ECollNo}, got, err)
		return
	}
	if s.expect(n, []string{OK}, got, err) && has != mc.Indexes[field] {
		s.viol("catalog:HasIndex", "%s = %v, model says %v", n, has, mc.Indexes[field])
	}
}

func (s *S) ListIndexes(coll string) {
	n := fmt.Sprintf("ListIndexes(%q)", coll)
	var infos []index.Info
	got, err := s.run(n, true, func() (e error) { infos, e = s.h.DB.ListIndexes(coll); return })
	mc := s.coll(coll)
	if mc == nil {
		s.expect(n, []string{ECollNo}, got, err)
		return
	}
	if s.expect(n, []string{OK}, got, err) {
		s.tr("   indexes=%v", infos)
		fs := []string{}
		for _, i := range infos {
			fs = append(fs, i.Field)
			if i.Type != index.SingleField {
				s.viol("catalog:ListIndexes:type", "%s reports type %v for %q", n, i.Type, i.Field)
			}
		}
		sort.Strings(fs)
		if strings.Join(fs, "\x01") != strings.Join(mc.IndexList(), "\x01") {
			s.viol("catalog:ListIndexes", "%s = %q, model says %q", n, fs, mc.IndexList())
		}
	}
}

// ------------------------------------------------------------- reads

func renderDocs(ds []map[string]any, max int) string {
	var b strings.Builder
	for i, d := range ds {
		if i >= max {
			fmt.Fprintf(&b, " ...(%d more)", len(ds)-max)
			break
		}
		b.WriteString("\n    " + model.Render(d))
	}
	return b.String()
}

// FindAll runs the query and checks the answer against the model.
// It returns the documents (nil on failure).
func (s *S) FindAll(q *model.Query) []map[string]any {
	n := "FindAll(" + q.String() + ")"
	var docs []*document.Document
	got, err := s.run(n, true, func() (e error) { docs, e = s.h.DB.FindAll(q.ToClover()); return })
	mc := s.coll(q.Coll)
	if mc == nil {
		s.expect(n, []string{ECollNo}, got, err)
		return nil
	}
	if !s.expect(n, []string{OK}, got, err) {
		return nil
	}
	res := model.FromDocs(docs)
	s.tr("   ids=%v", idsOf(res))
	problem, inc := model.CheckResult(q, mc.Docs, res)
	if inc {
		s.c.Inconclusive("unspecified_comparison")
		return res
	}
	if problem != "" {
		s.viol("find:"+problemClass(problem)+":"+s.plan, "%s on %s (plan %s, indexes %v): %s\n  got %d documents:%s\n  collection holds %d documents:%s",
			n, s.h.Backend, s.plan, mc.IndexList(), problem, len(res), renderDocs(res, 12), len(mc.Docs), renderDocs(mc.DocList(), 30))
		return nil
	}
	s.coverQuery(q, mc, len(res))
	return res
}

func problemClass(p string) string {
	switch {
	case strings.Contains(p, "returned twice"):
		return "duplicate"
	case strings.Contains(p, "not live"):
		return "dead-doc"
	case strings.Contains(p, "content differs"):
		return "stale-content"
	case strings.Contains(p, "does not satisfy"):
		return "non-matching"
	case strings.Contains(p, "missing from result"):
		return "missing"
	case strings.Contains(p, "result has"):
		return "window-size"
	case strings.Contains(p, "sorted result"):
		return "order"
	}
	return "other"
}

func (s *S) coverQuery(q *model.Query, mc *model.Coll, n int) {
	if n == 0 || (n == len(mc.Docs) && q.Crit != nil) {
		s.c.Count("trivial_results", 1)
		return
	}
	shape := "nocrit"
	if q.Crit != nil {
		shape = q.Crit.Shape()
		if len(shape) > 60 {
			shape = fmt.Sprintf("deep%d", q.Crit.Depth())
		}
	}
	sk := "unsorted"
	if o := q.EffSort(); o != nil {
		sk = fmt.Sprintf("sort%d", len(o))
		for _, x := range o {
			if x.Dir < 0 {
				sk += "-"
			} else {
				sk += "+"
			}
		}
	}
	win := "nowin"
	if q.EffSkip() > 0 || q.EffLimit() >= 0 {
		win = "win"
	}
	idx := "noidx"
	if len(mc.Indexes) > 0 {
		idx = "idx"
	}
	s.c.Cell("%s|%s|%s|%s|%s", shape, s.plan, sk, win, idx)
}

func (s *S) Count(q *model.Query) {
	n := "Count(" + q.String() + ")"
	var cnt int
	got, err := s.run(n, true, func() (e error) { cnt, e = s.h.DB.Count(q.ToClover()); return })
	mc := s.coll(q.Coll)
	if mc == nil {
		s.expect(n, []string{ECollNo}, got, err)
		return
	}
	if !s.expect(n, []string{OK}, got, err) {
		return
	}
	s.tr("   count=%d", cnt)
	match, dc := q.Matching(mc.Docs)
	if len(dc) > 0 {
		s.c.Inconclusive("unspecified_comparison")
		return
	}
	from, to := q.Window(len(match))
	if cnt != to-from {
		s.viol("count:mismatch:"+s.plan, "%s = %d, model says %d (matching %d; indexes %v)", n, cnt, to-from, len(match), mc.IndexList())
	}
}

func (s *S) FindById(coll, id string) {
	n := fmt.Sprintf("FindById(%q,%q)", coll, id)
	var doc *document.Document
	got, err := s.run(n, true, func() (e error) { doc, e = s.h.DB.FindById(coll, id); return })
	mc := s.coll(coll)
	if mc == nil {
		s.expect(n, []string{ECollNo}, got, err)
		return
	}
	if !s.expect(n, []string{OK}, got, err) {
		return
	}
	md, live := mc.Docs[id]
	if !live {
		if doc != nil {
			s.viol("findbyid:dead-doc", "%s returned a document although none is live under that id: %s", n, model.Render(model.FromDoc(doc)))
		}
		return
	}
	if doc == nil {
		s.viol("findbyid:missing", "%s returned nil, model holds %s", n, model.Render(md))
		return
	}
	g := model.FromDoc(doc)
	if gid, _ := g["_id"].(string); gid != id {
		s.viol("findbyid:wrong-id", "%s returned a document whose _id is %q", n, gid)
		return
	}
	if d := model.StrictDiff(md, g); d != "" {
		s.viol("findbyid:content", "%s content differs at %s\n  got  %s\n  want %s", n, d, model.Render(g), model.Render(md))
	}
}

// ------------------------------------------------------------- writes

func offending(d map[string]any) bool {
	id, has := d["_id"]
	if !has || id == "" {
		// an id will be generated; only _expiresAt can be wrong
		if v, h := d["_expiresAt"]; h {
			if _, ok := v.(time.Time); !ok {
				return true
			}
		}
		return false
	}
	return !model.ValidDoc(d)
}

// Insert inserts model documents (with or without _id). Returns the ids on success.
func (s *S) Insert(coll string, docs []map[string]any, one bool) []string {
	n := fmt.Sprintf("Insert(%q, %d docs)", coll, len(docs))
	if one {
		n = fmt.Sprintf("InsertOne(%q)", coll)
	}
	for i, d := range docs {
		if len(docs) > 64 && i >= 8 && i < len(docs)-8 {
			if i == 8 {
				s.c.Log("   ... %d documents not printed ...", len(docs)-16)
			}
			continue
		}
		s.c.Log("   doc %s", model.Render(d))
	}
	cds := make([]*document.Document, len(docs))
	for i, d := range docs {
		cds[i] = model.NewDoc(d)
	}
	var retID string
	s.budgetExtra = 40 * len(docs) // the batch itself, not only the stored documents, bounds the store calls of an insert
	got, err := s.run(n, false, func() (e error) {
		if one {
			retID, e = s.h.DB.InsertOne(coll, cds[0])
			return
		}
		return s.h.DB.Insert(coll, cds...)
	})
	mc := s.coll(coll)
	// expectation
	wantSet := map[string]bool{}
	if mc == nil {
		wantSet[ECollNo] = true
	}
	seen := map[string]bool{}
	for _, d := range docs {
		if offending(d) {
			wantSet[EAny] = true
			continue
		}
		id, _ := d["_id"].(string)
		if id == "" {
			continue
		}
		if seen[id] || (mc != nil && mc.Docs[id] != nil) {
			wantSet[EDup] = true
		}
		seen[id] = true
	}
	want := []string{}
	for k := range wantSet {
		want = append(want, k)
	}
	sort.Strings(want)
	if len(want) == 0 {
		want = []string{OK}
	}
	if !s.expect(n, want, got, err) || got != OK {
		return nil
	}
	ids := make([]string, len(docs))
	for i, d := range docs {
		id := cds[i].ObjectId()
		given, _ := d["_id"].(string)
		if given != "" {
			if id != given {
				s.viol("insert:id-replaced", "%s: supplied _id %q was replaced by %q", n, given, id)
				return nil
			}
		} else {
			if !model.ValidUUID(id) {
				s.viol("insert:generated-id-invalid", "%s: generated _id %q is not a canonical UUID", n, id)
				return nil
			}
			if s.genIDs[id] || mc.Docs[id] != nil {
				s.viol("insert:generated-id-repeated", "%s: generated _id %q was already used", n, id)
				return nil
			}
			s.genIDs[id] = true
			model.NoteGenerated(id)
		}
		nd := model.CopyDoc(d)
		nd["_id"] = id
		mc.Docs[id] = nd
		s.noteID(coll, id)
		ids[i] = id
	}
	if one && retID != ids[0] {
		s.viol("insert:InsertOne-id", "InsertOne returned id %q but the document carries %q", retID, ids[0])
	}
	return ids
}

// Upd describes an updater in a way both the model and the real callback can apply.
type Upd struct {
	Name            string
	InPlace         bool           // modify the argument and return it, instead of a copy
	Set             map[string]any // dotted path -> value (canonical)
	NewID           string         // != "": set _id to this value
	Delete          bool           // UpdateFunc only: return nil
	BadExp          bool           // set _expiresAt to a non-time
	SpellingOfOwnID bool           // set _id to the other letter case of the document's own id
	DeleteSome      bool           // UpdateFunc only: return nil (delete) for the documents whose id bytes sum to an even number, rewrite the others
	NilMap          bool           // Update(map) only: hand over a nil map (no change at all)
	Raw             map[string]any // optional: for a path of Set, the same value as non-canonical Go types (handed to clover instead)
}

func (u *Upd) real(k string) any {
	if v, ok := u.Raw[k]; ok {
		return v
	}
	return model.DeepCopy(u.Set[k])
}

func otherCase(id string) string {
	if up := strings.ToUpper(id); up != id {
		return up
	}
	return strings.ToLower(id)
}

func (u *Upd) String() string {
	parts := []string{u.Name}
	if u.InPlace {
		parts = append(parts, "inplace")
	}
	for _, k := range model.SortedKeys(u.Set) {
		parts = append(parts, k+"="+model.Render(u.Set[k]))
	}
	if u.NewID != "" {
		parts = append(parts, "_id="+u.NewID)
	}
	if u.Delete {
		parts = append(parts, "->nil")
	}
	if u.BadExp {
		parts = append(parts, "_expiresAt=<string>")
	}
	return strings.Join(parts, " ")
}

// applyModel returns the updated copy of a model document (nil = delete).
// dropsID decides, from the id alone, which documents a DeleteSome updater removes.
func dropsID(id string) bool {
	h := 0
	for i := 0; i < len(id); i++ {
		h += int(id[i])
	}
	return h%2 == 0
}

func (u *Upd) applyModel(d map[string]any) map[string]any {
	if u.Delete {
		return nil
	}
	if id, _ := d["_id"].(string); u.DeleteSome && dropsID(id) {
		return nil
	}
	n := model.CopyDoc(d)
	for _, k := range model.SortedKeys(u.Set) {
		model.SetPath(n, k, model.DeepCopy(u.Set[k]))
	}
	if u.NewID != "" {
		n["_id"] = u.NewID
		if id, ok := d["_id"].(string); ok && u.SpellingOfOwnID {
			n["_id"] = otherCase(id)
		}
	}
	if u.BadExp {
		n["_expiresAt"] = "soon"
	}
	return n
}

// callback builds the real updater; it records every invocation.
type updCall struct {
	ID  string
	Arg map[string]any
}

func (u *Upd) callback(calls *[]updCall) func(*document.Document) *document.Document {
	return func(doc *document.Document) *document.Document {
		*calls = append(*calls, updCall{ID: doc.ObjectId(), Arg: model.FromDoc(doc)})
		if u.Delete || (u.DeleteSome && dropsID(doc.ObjectId())) {
			return nil
		}
		t := doc
		if !u.InPlace {
			t = doc.Copy()
		}
		for _, k := range model.SortedKeys(u.Set) {
			t.Set(k, u.real(k))
		}
		if u.NewID != "" {
			if u.SpellingOfOwnID {
				t.Set("_id", otherCase(doc.ObjectId()))
			} else {
				t.Set("_id", u.NewID)
			}
		}
		if u.BadExp {
			t.Set("_expiresAt", "soon")
		}
		return t
	}
}

func (u *Upd) asMap() map[string]any {
	if u.NilMap && len(u.Set) == 0 && u.NewID == "" && !u.BadExp {
		return nil
	}
	m := map[string]any{}
	for k := range u.Set {
		m[k] = u.real(k)
	}
	if u.NewID != "" {
		m["_id"] = u.NewID
	}
	if u.BadExp {
		m["_expiresAt"] = "soon"
	}
	return m
}

func (s *S) UpdateById(coll, id string, u *Upd) {
	n := fmt.Sprintf("UpdateById(%q,%q,%s)", coll, id, u)
	var calls []updCall
	got, err := s.run(n, false, func() error { return s.h.DB.UpdateById(coll, id, u.callback(&calls)) })
	mc := s.coll(coll)
	if mc == nil {
		s.expect(n, []string{ECollNo}, got, err)
		s.noCalls(n, calls)
		return
	}
	old, live := mc.Docs[id]
	if !live {
		s.expect(n, []string{EDocNo}, got, err)
		s.noCalls(n, calls)
		return
	}
	nd := u.applyModel(old)
	want := []string{OK}
	if !model.ValidDoc(nd) {
		want = []string{EAny}
	} else if nd["_id"] != id {
		want = []string{OK, EAny} // reject, or keep the key: both satisfy C12
	}
	if !s.expect(n, want, got, err) {
		return
	}
	if len(calls) != 1 || calls[0].ID != id {
		s.viol("update:callback-count:UpdateById", "%s: updater ran %d times (want once on %s)", n, len(calls), id)
		return
	}
	if d := model.StrictDiff(old, calls[0].Arg); d != "" {
		s.viol("update:callback-arg:UpdateById", "%s: updater saw a value different from the stored one at %s", n, d)
		return
	}
	if got == OK {
		if nd["_id"] != id {
			nd["_id"] = id // the only acceptable successful outcome keeps the key
		}
		mc.Docs[id] = nd
	}
}

func (s *S) noCalls(n string, calls []updCall) {
	if len(calls) > 0 {
		s.viol("update:callback-on-missing", "%s: updater ran %d times although nothing can be selected", n, len(calls))
	}
}

func (s *S) ReplaceById(coll, id string, doc map[string]any) {
	n := fmt.Sprintf("ReplaceById(%q,%q,%s)", coll, id, model.Render(doc))
	got, err := s.run(n, false, func() error { return s.h.DB.ReplaceById(coll, id, model.NewDoc(doc)) })
	mc := s.coll(coll)
	wantSet := map[string]bool{}
	did, _ := doc["_id"].(string)
	if did != id || !model.ValidDoc(doc) {
		wantSet[EAny] = true
	}
	if mc == nil {
		wantSet[ECollNo] = true
	} else if mc.Docs[id] == nil {
		wantSet[EDocNo] = true
	}
	want := keys(wantSet)
	if len(want) == 0 {
		want = []string{OK}
	}
	if s.expect(n, want, got, err) && got == OK {
		mc.Docs[id] = model.CopyDoc(doc)
	}
}

func keys(m map[string]bool) []string {
	out := []string{}
	for k := range m {
		out = append(out, k)
	}
	model.SortIDs(out)
	return out
}

// Save of a document map (with or without _id).
func (s *S) Save(coll string, doc map[string]any) {
	n := fmt.Sprintf("Save(%q,%s)", coll, model.Render(doc))
	cd := model.NewDoc(doc)
	got, err := s.run(n, false, func() error { return s.h.DB.Save(coll, cd) })
	mc := s.coll(coll)
	id, _ := doc["_id"].(string)
	if mc == nil {
		want := []string{ECollNo}
		if offending(doc) {
			want = append(want, EAny)
		}
		s.expect(n, want, got, err)
		return
	}
	if offending(doc) {
		s.expect(n, []string{EAny}, got, err)
		return
	}
	if id == "" {
		if s.expect(n, []string{OK}, got, err) {
			nid := cd.ObjectId()
			if !model.ValidUUID(nid) || mc.Docs[nid] != nil || s.genIDs[nid] {
				s.viol("insert:generated-id-invalid", "%s: generated _id %q invalid or already used", n, nid)
				return
			}
			s.genIDs[nid] = true
			model.NoteGenerated(nid)
			nd := model.CopyDoc(doc)
			nd["_id"] = nid
			mc.Docs[nid] = nd
			s.noteID(coll, nid)
		}
		return
	}
	if mc.Docs[id] == nil {
		// "save or update": a rejected save and an upsert are both plausible readings
		if s.expect(n, []string{EDocNo, OK}, got, err) && got == OK {
			mc.Docs[id] = model.CopyDoc(doc)
			s.noteID(coll, id)
		}
		return
	}
	if s.expect(n, []string{OK}, got, err) {
		mc.Docs[id] = model.CopyDoc(doc)
	}
}

func (s *S) DeleteById(coll, id string) {
	n := fmt.Sprintf("DeleteById(%q,%q)", coll, id)
	got, err := s.run(n, false, func() error { return s.h.DB.DeleteById(coll, id) })
	mc := s.coll(coll)
	if mc == nil {
		s.expect(n, []string{ECollNo}, got, err)
		return
	}
	if mc.Docs[id] == nil {
		s.expect(n, []string{OK, EDocNo}, got, err)
		return
	}
	if s.expect(n, []string{OK}, got, err) {
		delete(mc.Docs, id)
	}
}

// determinize strips the window of a bulk-write query when the selection
// would otherwise be legitimately ambiguous.
func (s *S) determinize(q *model.Query) ([]string, bool) {
	mc := s.coll(q.Coll)
	if mc == nil {
		return nil, true
	}
	ids, ok, inc := model.SelectDeterministic(q, mc.Docs)
	if inc {
		return nil, false
	}
	if !ok {
		q.HasSkip, q.HasLimit = false, false
		ids, ok, inc = model.SelectDeterministic(q, mc.Docs)
		if !ok || inc {
			return nil, false
		}
	}
	return ids, true
}

// bulk kinds
const (
	BulkUpdateMap = iota
	BulkUpdateFunc
	BulkDelete
)

// Bulk runs Update / UpdateFunc / Delete on a query.
func (s *S) Bulk(kind int, q *model.Query, u *Upd) {
	sel, ok := s.determinize(q)
	if !ok {
		s.c.Inconclusive("bulk_selection_unspecified")
		return
	}
	var n string
	var calls []updCall
	var f func() error
	switch kind {
	case BulkUpdateMap:
		u.SpellingOfOwnID = false // a map carries one constant _id
		n = fmt.Sprintf("Update(%s, %s)", q, u)
		f = func() error { return s.h.DB.Update(q.ToClover(), u.asMap()) }
	case BulkUpdateFunc:
		n = fmt.Sprintf("UpdateFunc(%s, %s)", q, u)
		f = func() error { return s.h.DB.UpdateFunc(q.ToClover(), u.callback(&calls)) }
	default:
		n = fmt.Sprintf("Delete(%s)", q)
		u = &Upd{Name: "delete", Delete: true}
		f = func() error { return s.h.DB.Delete(q.ToClover()) }
	}
	got, err := s.run(n, false, f)
	mc := s.coll(q.Coll)
	if mc == nil {
		s.expect(n, []string{ECollNo}, got, err)
		s.noCalls(n, calls)
		return
	}
	// expected new state
	newDocs := map[string]map[string]any{}
	invalid, rewritesID := false, false
	for _, id := range sel {
		nd := u.applyModel(mc.Docs[id])
		if nd != nil {
			if !model.ValidDoc(nd) {
				invalid = true
			} else if nd["_id"] != id {
				rewritesID = true
			}
		}
		newDocs[id] = nd
	}
	want := []string{OK}
	if invalid {
		want = []string{EAny}
	} else if rewritesID {
		want = []string{OK, EAny}
	}
	if !s.expect(n, want, got, err) {
		return
	}
	plan := s.plan
	if kind == BulkUpdateFunc && (got == OK) {
		// the callback is itself a monitor: once per selected document, on its pre-call value
		seen := map[string]int{}
		for _, cl := range calls {
			seen[cl.ID]++
			old := mc.Docs[cl.ID]
			if old == nil {
				s.viol("bulk:callback-foreign", "%s: update function ran on %q which is not a live document", n, cl.ID)
				return
			}
			if d := model.StrictDiff(old, cl.Arg); d != "" {
				s.viol("bulk:callback-arg", "%s: update function saw a value different from the pre-call one for %s at %s", n, cl.ID, d)
				return
			}
		}
		for _, id := range sel {
			if seen[id] != 1 {
				s.viol("bulk:callback-count:"+plan, "%s on %s (plan %s, %d docs, indexes %v): update function ran %d times on selected document %s (want exactly once; %d selected, %d calls)",
					n, s.h.Backend, plan, len(mc.Docs), mc.IndexList(), seen[id], id, len(sel), len(calls))
				return
			}
		}
		if len(calls) != len(sel) {
			s.viol("bulk:callback-extra:"+plan, "%s: update function ran %d times, %d documents selected", n, len(calls), len(sel))
			return
		}
	}
	if got == OK {
		for id, nd := range newDocs {
			if nd == nil {
				delete(mc.Docs, id)
			} else {
				nd["_id"] = id
				mc.Docs[id] = nd
			}
		}
	}
	// effect check: the whole collection must equal the model now
	if !s.CompareCollection(q.Coll, "bulk:effect:"+opName(n)+":"+plan, n) {
		return
	}
	if len(sel) >= 2 {
		sz := sizeClass(len(mc.Docs) + countDeleted(newDocs))
		s.c.Cell("bulk|%s|%s|n%s|idx%d|%s|sel%s", opName(n), s.h.Backend, sz, len(mc.Indexes), plan, sizeClass(len(sel)))
	}
}

func countDeleted(m map[string]map[string]any) int {
	n := 0
	for _, d := range m {
		if d == nil {
			n++
		}
	}
	return n
}

func sizeClass(n int) string {
	switch {
	case n == 0:
		return "0"
	case n == 1:
		return "1"
	case n < 10:
		return "<10"
	case n < 50:
		return "<50"
	case n < 200:
		return "<200"
	case n < 1000:
		return "<1k"
	default:
		return ">=1k"
	}
}

// CompareCollection reads the whole collection and compares it with the model.
func (s *S) CompareCollection(coll, sig, after string) bool {
	mc := s.coll(coll)
	var docs []*document.Document
	q := &model.Query{Coll: coll}
	got, err := s.run("FindAll("+q.String()+")", true, func() (e error) { docs, e = s.h.DB.FindAll(q.ToClover()); return })
	if mc == nil {
		return s.expect("FindAll(all)", []string{ECollNo}, got, err)
	}
	if !s.expect("FindAll("+q.String()+")", []string{OK}, got, err) {
		return false
	}
	res := model.FromDocs(docs)
	if p, _ := model.CheckResult(q, mc.Docs, res); p != "" {
		s.viol(sig, "after %s on %s: collection %q differs from the model: %s (store has %d documents, model %d; indexes %v)", after, s.h.Backend, coll, p, len(res), len(mc.Docs), mc.IndexList())
		return false
	}
	return true
}
