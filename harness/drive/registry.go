package drive

import (
	"verif/harness/core"
	"verif/harness/gen"
)

var allBackends = []string{BBolt, BBolt, BBolt, BBoltRaw, BadgerMem, BadgerMem, BadgerDisk, BadgerRaw}
var threeBackends = []string{BBolt, BBolt, BadgerMem, BadgerDisk, BadgerRaw}

var modelAssumptions = []string{
	"the reference model (harness/model) encodes the documented semantics; it is cross-checked on order/Boolean laws by the C10 and C16 checks",
	"values, names and callbacks stay inside the supported domain of DESIGN.md section 5",
}

var seqGeneral = &SeqCfg{
	Focus: "general", Ops: [2]int{40, 120}, NColls: [2]int{2, 4}, InitDocs: []int{0, 3, 10, 25, 60},
	AuditEvery: [2]int{15, 40}, Queries: 2, W: weights(nil), Backends: allBackends,
}

var seqBulk = &SeqCfg{
	Focus: "bulk", Ops: [2]int{5, 12}, NColls: [2]int{1, 2}, InitDocs: []int{0, 1, 2, 5, 17, 37, 60, 100, 150, 400, 1000},
	AuditEvery: [2]int{4, 8}, Queries: 0, Backends: []string{BBolt, BBolt, BBolt, BadgerMem, BadgerDisk, BBoltRaw, BadgerRaw},
	W: weights(map[string]int{"CreateCollection": 0, "DropCollection": 4, "HasCollection": 0, "ListCollections": 0, "CreateIndex": 6, "DropIndex": 4, "HasIndex": 0, "ListIndexes": 0,
		"Insert": 3, "InsertOne": 0, "Save": 0, "ReplaceById": 0, "UpdateById": 1, "Update": 22, "UpdateFunc": 26, "Delete": 14, "DeleteById": 1,
		"FindAll": 2, "Count": 1, "FindById": 0, "CreateByQuery": 1, "Reopen": 0, "hostileBatchPct": 0, "rewriteIDPct": 0, "badExpPct": 0}),
	IDStyles: true, BigPad: true,
}

var seqBulkBig = &SeqCfg{
	Focus: "bulk-big", Ops: [2]int{3, 6}, NColls: [2]int{1, 1}, InitDocs: []int{1500, 2500, 4000, 5200},
	AuditEvery: [2]int{3, 6}, Queries: 0, Backends: []string{BBolt, BBolt, BadgerMem, BadgerDisk, BadgerRaw},
	W: seqBulk.W, IDStyles: true, BigPad: true,
}

var seqAudit = &SeqCfg{
	Focus: "audit", Ops: [2]int{30, 80}, NColls: [2]int{2, 3}, InitDocs: []int{0, 3, 12, 40, 150, 0, 3, 12, 40, 150, 600, 1300},
	AuditEvery: [2]int{2, 6}, Queries: 0, Backends: threeBackends,
	W: weights(map[string]int{"DropCollection": 6, "CreateCollection": 6, "CreateIndex": 10, "DropIndex": 8, "DeleteById": 14, "Delete": 8, "UpdateFunc": 10, "UpdateById": 10,
		"FindAll": 2, "Count": 2, "hostileBatchPct": 30, "rewriteIDPct": 10, "badExpPct": 10, "Reopen": 2}),
	ForceFields: map[string]gen.Profile{"x": {Kind: gen.PSmallInt}, "xy": {Kind: gen.PMixedNum, Nil: 10}, "n.a": {Kind: gen.PSmallInt, Absent: 20}, "n.b": {Kind: gen.PString}},
}

var seqSort = &SeqCfg{
	Focus: "sort", Ops: [2]int{40, 70}, NColls: [2]int{1, 2}, InitDocs: []int{2, 8, 20, 45, 90},
	AuditEvery: [2]int{40, 60}, Queries: 0, Backends: allBackends, CritPct: 55, SortPct: 92, WinPct: 50,
	W: weights(map[string]int{"FindAll": 120, "Count": 4, "CreateIndex": 6, "DropIndex": 3, "Insert": 4, "UpdateById": 4, "DeleteById": 3, "Update": 2, "UpdateFunc": 2, "Delete": 1,
		"CreateCollection": 0, "DropCollection": 0, "Save": 1, "ReplaceById": 1, "InsertOne": 1, "CreateByQuery": 0, "hostileBatchPct": 0}),
}

var seqSortBig = &SeqCfg{
	Focus: "sort-big", Ops: [2]int{25, 40}, NColls: [2]int{1, 1}, InitDocs: []int{1100, 1600, 2300, 4500},
	AuditEvery: [2]int{100, 200}, Queries: 0, Backends: []string{BBolt, BadgerMem, BBolt}, CritPct: 40, SortPct: 95, WinPct: 70,
	W: weights(map[string]int{"FindAll": 100, "Derived": 15, "Count": 3, "CreateIndex": 3, "DropIndex": 2, "Insert": 0, "InsertOne": 1, "UpdateById": 2, "DeleteById": 2, "Update": 0, "UpdateFunc": 0, "Delete": 0,
		"CreateCollection": 0, "DropCollection": 0, "Save": 0, "ReplaceById": 0, "CreateByQuery": 0, "Reopen": 0, "HasCollection": 0, "ListCollections": 0, "HasIndex": 0, "ListIndexes": 0, "FindById": 1, "hostileBatchPct": 0}),
	ForceFields: map[string]gen.Profile{"x": {Kind: gen.PSmallInt}},
}

var seqDerived = &SeqCfg{
	Focus: "derived", Ops: [2]int{30, 70}, NColls: [2]int{1, 3}, InitDocs: []int{0, 1, 5, 20, 50},
	AuditEvery: [2]int{30, 60}, Queries: 1, Derived: true, Backends: allBackends, SortPct: 50, WinPct: 40,
	W: weights(map[string]int{"Derived": 40, "FindAll": 0, "Count": 0, "DeleteById": 12, "hostileBatchPct": 25, "rewriteIDPct": 8, "badExpPct": 8}),
}

var seqIDs = &SeqCfg{
	Focus: "ids", Ops: [2]int{30, 70}, NColls: [2]int{2, 3}, InitDocs: []int{0, 2, 6, 12},
	AuditEvery: [2]int{20, 40}, Queries: 0, Backends: allBackends, SharedIDs: true, IDSweep: true,
	W: weights(map[string]int{"Insert": 20, "InsertOne": 8, "Save": 14, "ReplaceById": 12, "UpdateById": 14, "Update": 8, "UpdateFunc": 8, "FindById": 6, "FindAll": 2,
		"CreateIndex": 3, "DropIndex": 1, "hostileBatchPct": 40, "rewriteIDPct": 30, "badExpPct": 5}),
}

var seqColls = &SeqCfg{
	Focus: "colls", Ops: [2]int{30, 70}, NColls: [2]int{3, 6}, InitDocs: []int{0, 2, 6, 15},
	AuditEvery: [2]int{15, 30}, Queries: 0, Backends: allBackends, SharedIDs: true, CheckOthers: true,
	W: weights(map[string]int{"CreateCollection": 10, "DropCollection": 8, "HasCollection": 5, "ListCollections": 4, "CreateIndex": 6, "DropIndex": 4, "HasIndex": 3, "ListIndexes": 3,
		"CreateByQuery": 4, "FindAll": 4, "Delete": 6, "Update": 6}),
}

var seqIndexes = &SeqCfg{
	Focus: "indexes", Ops: [2]int{30, 60}, NColls: [2]int{1, 2}, InitDocs: []int{0, 3, 10, 30, 0, 3, 10, 30, 120, 700},
	AuditEvery: [2]int{10, 20}, Queries: 1, Backends: allBackends, AuditAfterIndexOps: true, SortPct: 60,
	W:           weights(map[string]int{"CreateIndex": 22, "DropIndex": 16, "HasIndex": 6, "ListIndexes": 6, "CreateCollection": 1, "DropCollection": 1, "FindAll": 14}),
	ForceFields: map[string]gen.Profile{"x": {Kind: gen.PSmallInt, Absent: 10}, "xy": {Kind: gen.PMixedNum, Nil: 10}, "n.a": {Kind: gen.PSmallInt, Absent: 20}, "n.b": {Kind: gen.PString}},
}

func seqEngine(name string, cfg *SeqCfg) *core.Engine {
	return &core.Engine{Name: name, Run: func(c *core.Ctx) { RunSeq(c, cfg) }}
}

func init() {
	eGeneral := seqEngine("seq-general", seqGeneral)
	eTwin := &core.Engine{Name: "twin", Run: RunTwin}
	eBulk := seqEngine("seq-bulk", seqBulk)
	eBulkBig := seqEngine("seq-bulk-big", seqBulkBig)
	eAudit := seqEngine("seq-audit", seqAudit)
	eSort := seqEngine("seq-sort", seqSort)
	eDerived := seqEngine("seq-derived", seqDerived)
	eIDs := seqEngine("seq-ids", seqIDs)
	eColls := seqEngine("seq-colls", seqColls)
	eIndexes := seqEngine("seq-indexes", seqIndexes)

	core.Register(&core.PropSpec{
		ID: "C01", Level: "exploration",
		Rule:        "seeded random histories of public operations over 2-4 collections (indexes absent / created before / after the data) run on the real DB next to the reference model; every FindAll answer is compared with the model (ids, full field trees, Go types). evaluations = oracle comparisons of call outcomes and query answers. A cell <criteria shape | plan kind from the store event log | sort kind | window | index presence> is counted only when the answer was non-empty and not the whole collection.",
		Assumptions: modelAssumptions,
		Uses:        []core.Use{{E: eGeneral, Quick: 600, Thorough: 15000}},
	})
	core.Register(&core.PropSpec{
		ID: "C02", Level: "exploration",
		Rule:        "twin collections holding the same documents but different index sets (none / filter field / sort field / unrelated / prefix+dotted siblings), indexes created before the load, after it, mid-history or dropped and re-created; every write goes to all twins, every FindAll/Count runs on all twins and is compared with the model and with the other twins (sets unsorted, sort-key sequences sorted, sizes windowed). A cell <criteria shape | set of plans that ran | sort kind | window> counts only when at least one twin really ran an index plan (store event log) and the answer was non-empty.",
		Assumptions: modelAssumptions,
		Uses:        []core.Use{{E: eTwin, Quick: 600, Thorough: 12000}, {E: eGeneral, Quick: 150, Thorough: 3000}},
	})
	core.Register(&core.PropSpec{
		ID: "C03", Level: "exploration",
		Rule:        "bulk Update/UpdateFunc/Delete/DropCollection on collections of 0..4000 documents (padding 0-600 B, ids random/clustered/sequential, 0-3 indexes, criteria and sorts on the rewritten field, both updater styles) on bbolt, badger-mem, badger-disk; the UpdateFunc callback records every invocation (exactly once per selected document, on the pre-call value) and the whole collection is compared with the model after each bulk operation. A cell <operation|backend|size class|#indexes|plan|selected class> counts when >= 2 documents were selected.",
		Assumptions: modelAssumptions,
		Uses:        []core.Use{{E: eBulk, Quick: 500, Thorough: 10000}, {E: eBulkBig, Quick: 8, Thorough: 300}},
	})
	core.Register(&core.PropSpec{
		ID: "C06", Level: "exploration",
		Rule:        "histories skewed to deletes of absent ids, failing operations, drop + re-create of collections and indexes, prefix/dotted sibling indexes, in-place updaters; every 2-6 operations the state-rebuild audit runs: Count/FindAll/model agreement, ordered and range scans through every index vs the model, and the raw key listing of the live store compared key-by-key with a database rebuilt from the logical state (identical key sets, equal decoded values). A cell <preceding operation|backend|#indexes|size class> counts when the audited store held >= 1 index and >= 2 documents.",
		Assumptions: append([]string{"the fresh rebuild (CreateCollection, one Insert, CreateIndex) encodes correctly - that is C10/C17's business"}, modelAssumptions...),
		Uses:        []core.Use{{E: eAudit, Quick: 200, Thorough: 5000}},
	})
	core.Register(&core.PropSpec{
		ID: "C08", Level: "exploration",
		Rule:        "collections with duplicate, absent, nil and mixed-type sort keys; 1-3 sort options in all direction spellings (0, 2, -3, ...), skip/limit over {-1,0,1,n-1,n,n+3,random}; the returned sort-key tuple sequence must equal the window of the model's fully sorted sequence (absent = nil, or absent before nil), members distinct, live, matching; unsorted windows must have length min(m,max(0,total-n)). A cell is <shape|plan|sort kind|window|index> with a non-empty, non-total answer.",
		Assumptions: modelAssumptions,
		Uses:        []core.Use{{E: eSort, Quick: 600, Thorough: 12000}, {E: seqEngine("seq-sort-big", seqSortBig), Quick: 8, Thorough: 200}},
	})
	core.Register(&core.PropSpec{
		ID: "C09", Level: "exploration",
		Rule:        "for random queries in states reached by histories that include deletes of absent ids and failed operations: FindAll, Count, Exists, FindFirst and ForEach (full and stopping after 1, 2, k, all) run on the same handle and are compared with each other and the model; a structural fingerprint of the query object is compared before/after every API and builder call; the store event log must show no Set/Delete during reads. A cell <criteria?|sorted?|window?|plan|stop class> counts when FindAll had >= 2 documents.",
		Assumptions: modelAssumptions,
		Uses:        []core.Use{{E: eDerived, Quick: 400, Thorough: 12000}, {E: seqEngine("seq-sort-big", seqSortBig), Quick: 4, Thorough: 100}},
	})
	core.Register(&core.PropSpec{
		ID: "C12", Level: "exploration",
		Rule:        "id-focused histories (single and batched inserts with generated and supplied ids, duplicates and malformed ids at random batch positions, ids reused across collections, Save/ReplaceById with matching and mismatching ids, updates rewriting _id); generated ids are checked by an independent canonical-UUID parser and for uniqueness; after every write FindById is called for every id ever used in every collection and must return nil or the model's document whose _id equals the key. Cells are <operation|outcome class> pairs observed.",
		Assumptions: modelAssumptions,
		Uses:        []core.Use{{E: eIDs, Quick: 700, Thorough: 15000}},
	})
	core.Register(&core.PropSpec{
		ID: "C13", Level: "exploration",
		Rule:        "3-6 collections with hostile names (prefix pairs, names that look like key prefixes, unicode, empty) whose documents reuse the same ids; after every write the catalog and the full content, index list and Count of every OTHER collection are compared with the model. Cells are <operation|outcome class> pairs observed.",
		Assumptions: modelAssumptions,
		Uses:        []core.Use{{E: eColls, Quick: 700, Thorough: 15000}},
	})
	core.Register(&core.PropSpec{
		ID: "C14", Level: "exploration",
		Rule:        "index create/drop interleaved with writes on schemas that always contain x, xy, n.a, n.b (and n); after every index operation the catalog is compared with the model and every surviving index serves an ordered scan in both directions, a range, an equality and a descending range query that are compared with the model; periodic raw-store audits. Cells are <operation|outcome class> pairs plus audit cells.",
		Assumptions: modelAssumptions,
		Uses:        []core.Use{{E: eIndexes, Quick: 250, Thorough: 5000}},
	})

	eOrder := &core.Engine{Name: "pure-order", Run: RunOrder}
	eRound := &core.Engine{Name: "roundtrip", Run: RunRoundTrip}
	eBackends := &core.Engine{Name: "backends-lockstep", Run: RunBackends}
	eCursor := &core.Engine{Name: "pure-cursor", Run: RunCursor}
	eCritPure := &core.Engine{Name: "criteria-pure", Run: RunCriteriaPure}
	eCritDB := &core.Engine{Name: "criteria-db", Run: RunCriteriaDB}
	eIndex := &core.Engine{Name: "pure-index", Run: RunIndex}
	eNorm := &core.Engine{Name: "pure-normalize", Run: RunNormalize}
	eExport := &core.Engine{Name: "export-import", Run: RunExportImport}
	eSweep := &core.Engine{Name: "sweep", Run: RunSweep}

	core.Register(&core.PropSpec{
		ID: "C10", Level: "exploration",
		Rule:        "the sign of clover's comparison is observed through Criteria.Satisfy (exactly one of Gt/Lt/Eq must hold on a one-field document) and the index key bytes through index.Add on a recording transaction; case 0 enumerates ALL ordered pairs and all triples of a ~220-value boundary pool (integer extremes, 2^53+-1, 2^63+-1, -0.0, +-Inf, subnormals, 0x00/0xFF strings, prefix families, nested and empty containers, times 1700..2261 in several zones), the other cases random pools of 70 values; checked: reflexivity, antisymmetry, transitivity, agreement with the documented order (exact integer/float comparison), and sign(bytes.Compare(key(a),key(b))) = sign(a,b) inside 2^53 / from 1970. A cell is <type a|type b|relation|boundary class a|boundary class b>.",
		Assumptions: []string{"an integer beyond 2^53 against a float is outside the property (counted as inconclusive)", "NaN is not generated"},
		Uses:        []core.Use{{E: eOrder, Quick: 300, Thorough: 20000}},
	})
	core.Register(&core.PropSpec{
		ID: "C11", Level: "exploration",
		Rule:        "documents of depth <= 4 with every type at every position (integer extremes, -0.0, +-Inf, empty containers, arbitrary byte strings, times before 1970 / beyond 2262 / with zone offsets and nanoseconds, times inside arrays and inside objects inside arrays) written through Insert, Save, ReplaceById, UpdateById, Update and read back by FindById and FindAll before and after close/reopen, compared by a strict recursive walk (Go type and value at every path, times by instant and offset). A cell is <container path shape>leaf type | backend | before/after reopen>.",
		Assumptions: []string{"zone offsets are whole minutes (Go's own time encoding mangles negative sub-minute offsets)"},
		Uses:        []core.Use{{E: eRound, Quick: 1500, Thorough: 40000}},
	})
	core.Register(&core.PropSpec{
		ID: "C15", Level: "exploration",
		Rule:        "(1) one seeded history (ids always supplied) is replayed on bbolt, badger on disk with the shipped default options and badger in memory; the transcripts (outcome class of every call, id sequence of every result, counts, catalog listings, and the outcome class of 27 calls after Close and after a second Close) must be identical line by line, and each is also compared with the model. (2) cursor contract of each adapter against a sorted slice: random key sets with nil and empty values, committed base plus pending sets/deletes, forward and reverse seeks to present / absent / before-first / after-last targets, inside the writing transaction and in a read transaction. Cells: <lockstep backends|length class>, <adapter|direction|target class|tx phase|empty values>.",
		Assumptions: modelAssumptions,
		Uses:        []core.Use{{E: eBackends, Quick: 200, Thorough: 5000}, {E: eCursor, Quick: 1500, Thorough: 40000}},
	})
	core.Register(&core.PropSpec{
		ID: "C16", Level: "exploration",
		Rule:        "random <criteria, document> pairs evaluated through Criteria.Satisfy and compared with the model and relationally (double negation, De Morgan, commutativity, Neq = Not(Eq), NotExists = Not(Exists), In = disjunction of equalities, Contains = conjunction of single Contains); the same identities on FindAll result sets of a live database with and without indexes (the planner rewrites negations); the same integer literal supplied as every Go numeric kind, bare / inside In / inside Contains / inside nested slices and maps; Field(name) vs \"$name\" operands to present, nil and absent fields. A cell is <identity|truth value|absent field involved> (both truth values are separate cells), <literal kind|operator|indexed>, <fieldref|operator|target|indexed>.",
		Assumptions: modelAssumptions,
		Uses:        []core.Use{{E: eCritPure, Quick: 400, Thorough: 8000}, {E: eCritDB, Quick: 300, Thorough: 8000}},
	})
	core.Register(&core.PropSpec{
		ID: "C17", Level: "exploration",
		Rule:        "an index is populated through index.Add on a real transaction of bbolt / badger / the harness's memory store (duplicates, nil, mixed types, sibling indexes on field+'y' and field+'.y', another collection and document keys next to it), then IterateRange runs for ranges whose bounds are drawn from every stored value, neighbours and type boundaries x both inclusivity flags x both directions (at least one non-nil bound, or the nil-only range), inside the writing transaction and after commit; expected = entries whose value lies in the range under the model order; also full Iterate, stop by sentinel and by foreign error after j calls, Intersect (never excludes a common value) and IsEmpty. A cell is <bound types|inclusivity|direction|bound hits a stored value|tx phase|backend> with a non-empty, non-total result.",
		Assumptions: []string{"order among entries with equal values is not specified and not checked"},
		Uses:        []core.Use{{E: eIndex, Quick: 1200, Thorough: 40000}},
	})
	core.Register(&core.PropSpec{
		ID: "C18", Level: "exploration",
		Rule:        "Go values filled by reflection over 17 struct types (clover rename / omitempty / both / empty name, json tags, embedded value and pointer, nested, unexported fields, named kinds) and 40 other types (every integer width, floats, pointers up to depth 3 incl. to times, maps, slices, arrays, interfaces) are normalised through Document.Set and NewDocumentOf and compared with an independent reference normaliser; canonical dynamic types everywhere, determinism, idempotence; 15 unsupported values must leave the document unchanged at 4 paths; Set/Get/Has/Fields path laws on random path sequences; struct -> document -> Unmarshal round trip for 14 types. A cell is <Go kind|pointer depth|struct?|normal-form type>, <unsupported type>, <roundtrip type>.",
		Assumptions: []string{"[]byte / [N]byte values are outside the domain (clover deliberately keeps byte slices as they are)", "embedded pointers are non-nil; embedded non-struct types are not generated"},
		Uses:        []core.Use{{E: eNorm, Quick: 800, Thorough: 40000}},
	})
	core.Register(&core.PropSpec{
		ID: "C19", Level: "exploration",
		Rule:        "collections of JSON-representable documents (numbers within 2^53, valid UTF-8 incl. escapes, nested maps/slices, times with zones), with or without indexes, are exported (raw store snapshot must be unchanged), imported under a new name and compared document by document with the JSON image of the model; twelve failing imports (existing target, missing file, directory, truncated / non-array / non-object / empty / garbage JSON, malformed and duplicate ids, bad _expiresAt) and two failing exports must leave the raw store byte-identical. A cell is <doc count class|indexed|backend>, <json value shape>, <failure kind|backend>.",
		Assumptions: modelAssumptions,
		Uses:        []core.Use{{E: eExport, Quick: 1000, Thorough: 30000}},
	})
	core.Register(&core.PropSpec{
		ID: "C20", Level: "exploration",
		Rule:        "hostile-call sweep: ~57 criteria shapes that stress the planner's type assertions (negations of In/Like/Exists/Contains/MatchFunc bare and under And/Or, triple and quadruple negation, field-reference operands on indexed fields, nil and container operands, empty In/Contains, odd paths, contradictory ranges, a 14-deep chain) x collection present / dropped / never created x 6 index configurations x 11 sort/skip/limit windows through FindAll, Count, Exists, FindFirst, ForEach, Update, UpdateFunc, Delete; point operations on present and missing documents/collections; the document, query-builder and index APIs with awkward arguments; the whole battery after Close and after a second Close; every call runs under recover(), the worker-death detector and the stall detector. A cell is <criteria shape|collection state|index configuration|backend> or <after-close|operation|outcome|backend>.",
		Assumptions: []string{"'never blocks' is decided as bounded progress: no store/API progress and no CPU time for 90 s with a call outstanding", "callbacks do not re-enter the DB"},
		Uses:        []core.Use{{E: eSweep, Quick: 240, Thorough: 5000}, {E: eGeneral, Quick: 100, Thorough: 2000}},
	})

	eFault := &core.Engine{Name: "fault", Run: RunFault}
	eInvalid := &core.Engine{Name: "invalid-input", Run: RunInvalid}
	core.Register(&core.PropSpec{
		ID: "C04", Level: "fault_enumeration",
		Rule:        "for 36 operations (the sixteen write kinds in several variants and every read) on database shapes {empty, 8 docs x 0/1/3 indexes, 60 (thorough 300) docs x 2 indexes} x backends: the operation's store-call trace is learnt on a dry run, then for EVERY listed call position (begin, get, set, delete, cursor item read, commit; exhaustive up to 90 / 260 positions per operation, otherwise first 25 + last 25 + a seeded sample, reported per scenario in exhaustive_parts) the call fails with a marker error, one-shot and sticky; asserted: a non-nil error is returned (reads too), the raw store is byte-identical to the snapshot taken before, no transaction stays open, and follow-up write/read calls work. Invalid-input failures (offending document at batch position 0/2/4, update yielding an invalid document at the first/middle/last selected one with and without sort/skip/limit, missing or existing collection/index/document for every operation, failing imports) use the same before/after snapshot. evaluations = fault runs + invalid-input scenarios; a cell is <operation|failing call kind|phase before-first-write/between-writes/at-commit/at-begin|mode|backend> or <invalid scenario|#indexes|backend>.",
		Assumptions: []string{"store failures are modelled at the store.Store seam: the k-th call returns an error (sticky: so does every later call of that transaction; a failing Commit rolls the inner transaction back)"},
		Uses:        []core.Use{{E: eFault, Quick: 15, Thorough: 90}, {E: eInvalid, Quick: 120, Thorough: 2000}},
	})

	eConc := &core.Engine{Name: "conc", Run: RunConc}
	eConcDisjoint := &core.Engine{Name: "conc-disjoint", Run: RunConcDisjoint}
	core.Register(&core.PropSpec{
		ID: "C07", Level: "exploration",
		Rule:        "2-8 goroutines x 6-14 operations on one handle (insert batches with unique tags, point update/replace/delete, bulk update/delete by group, index create/drop, FindAll snapshots, Count, FindById, ListIndexes; one *query.Query and one Criteria shared and extended by all goroutines) with scheduling perturbed at every store call (Gosched / 1-50 us sleeps, seeded); every call is recorded with call/return stamps from one atomic counter and the history is checked by porcupine against a sequential model of the collection (a conflict-rejected operation is accepted only as a no-op; 12 s budget per history in the quick tier, 60 s in the thorough tier, Unknown = inconclusive); every snapshot read is checked online for torn batches and partly applied bulk updates; the state-rebuild audit runs at quiescence; a quarter of the cases run again in the -race build and every race report whose stacks contain clover frames is a violation. evaluations = recorded operations checked; a cell is an overlapping operation-kind pair actually observed per backend class.",
		Assumptions: []string{"interleavings are sampled, not enumerated: the evidence lists which operation pairs were seen overlapping", "races wholly inside bbolt/badger are logged as external and do not decide"},
		Uses:        []core.Use{{E: eConc, Quick: 600, Thorough: 20000, Race: true}, {E: &core.Engine{Name: "conc-catalog", Run: RunConcCatalog}, Quick: 150, Thorough: 5000, Race: true}, {E: eConcDisjoint, Quick: 100, Thorough: 3000, Race: true}},
	})

	eCrash := &core.Engine{Name: "crash", Run: RunCrash}
	eReopen := &core.Engine{Name: "reopen-prefixes", Run: RunReopen}
	core.Register(&core.PropSpec{
		ID: "C05", Level: "fault_enumeration",
		Rule:        "a seeded history of 10-20 write operations (inserts, point and bulk updates/deletes with and without sort, index and collection create/drop, ImportCollection, CreateCollectionByQuery, failing batches) is replayed by a CHILD PROCESS that writes a begin mark before and an acknowledgement after every operation; the child is killed (SIGKILL) either by its own store monitor at store call k of operation j - k drawn from 1..calls(j)+1, i.e. every point between two store calls including just before Commit and just after it returned - or by the parent a seeded 0-3000 us after the begin mark on the unmonitored clover.Open path, or by `strace -e inject=pwrite64:signal=SIGKILL:when=N` at the entry of the N-th page write of a thread, i.e. inside bbolt's commit; after every kill the parent reopens the directory and runs the full state-rebuild audit (catalog, documents, Count, every index, raw keys) against the acknowledged state, then against acknowledged + in-flight; anything else is a violation; the child is restarted on the rest of the history (up to 14 / 30 kills per history). A second engine closes and reopens after EVERY prefix of a history in-process and audits. A third engine runs the child on the default bbolt path under strace and checks offline over the syscall log that after the last pwrite64 of every acknowledged operation an fdatasync/fsync completed before the acknowledgement was written (durability ordering - what a kill cannot show). evaluations = reopen+audit rounds; a cell is <in-flight operation kind|phase before-first-write/between-writes/before-commit/after-commit-before-ack/timed|adopted state|backend> or <reopen|operation kind|backend>.",
		Assumptions: []string{"a killed process keeps the page cache: power loss and torn sectors are not produced by this check", "badger runs with its default SyncWrites=false"},
		Uses:        []core.Use{{E: eCrash, Quick: 60, Thorough: 2000}, {E: eReopen, Quick: 60, Thorough: 1500}, {E: &core.Engine{Name: "fsync-order", Run: RunFsyncOrder}, Quick: 12, Thorough: 400}, {E: &core.Engine{Name: "crash-artifacts", Run: RunCrashArtifacts}, Quick: 10, Thorough: 200}},
	})

	// concurrent variants of sequentially stated clauses: a few concurrent histories in the checks whose statement they can break
	eConcCat := &core.Engine{Name: "conc-catalog", Run: RunConcCatalog}
	for id, n := range map[string][2]int{"C13": {80, 1500}, "C19": {40, 800}, "C09": {60, 1200}} {
		core.Registry[id].Uses = append(core.Registry[id].Uses, core.Use{E: eConcCat, Quick: n[0], Thorough: n[1]})
		core.Registry[id].Rule += " Plus concurrent creations/imports of one collection name by 2-6 goroutines (exactly one may succeed, nothing acknowledged may be lost; readers never see an imported collection without its documents)."
	}
	eOversized := &core.Engine{Name: "oversized", Run: RunOversized}
	for _, id := range []string{"C03", "C06", "C09", "C15"} {
		core.Registry[id].Uses = append(core.Registry[id].Uses, core.Use{E: eOversized, Quick: 3, Thorough: 12})
		core.Registry[id].Rule += " Plus operations beyond badger's default transaction size that fail at their very end (no trace may remain, on bbolt and badger alike)."
	}
	core.Registry["C03"].Uses = append(core.Registry["C03"].Uses, core.Use{E: eConcDisjoint, Quick: 80, Thorough: 2000})
	core.Registry["C03"].Rule += " Plus concurrent bulk operations by two goroutines on two different collections of one handle (each collection must end as if its goroutine ran alone)."
	for id, n := range map[string][2]int{"C06": {120, 2000}, "C12": {120, 2000}, "C14": {100, 2000}, "C04": {80, 1500}, "C03": {150, 3000}, "C05": {100, 2000}} {
		core.Registry[id].Uses = append(core.Registry[id].Uses, core.Use{E: eConc, Quick: n[0], Thorough: n[1]})
		core.Registry[id].Rule += " Plus concurrent histories (contended caller-supplied ids, concurrent deletes of one id, sorted read-modify-write bulk updates whose selection depends on the value they change) checked for linearizability and audited at quiescence."
	}
	core.Registry["C07"].Uses = append(core.Registry["C07"].Uses, core.Use{E: &core.Engine{Name: "conc-oversized", Run: RunConcOversized}, Quick: 6, Thorough: 60})
	core.Registry["C07"].Rule += " Plus an Insert beyond badger's default transaction size next to two counting readers (none or all of the batch is ever visible; a refused batch leaves nothing)."
	core.Registry["C07"].Uses = append(core.Registry["C07"].Uses, core.Use{E: &core.Engine{Name: "conc-recency", Run: RunConcRecency}, Quick: 120, Thorough: 3000})
	core.Registry["C07"].Rule += " Plus a single writer that checks its own write (FindById, Count) the moment the call has returned, next to 3-8 readers that are always in flight (real-time order)."
	core.Registry["C07"].Uses = append(core.Registry["C07"].Uses, core.Use{E: &core.Engine{Name: "conc-phantom", Run: RunConcPhantom}, Quick: 8, Thorough: 40})
	core.Registry["C07"].Rule += " Plus one forced interleaving on badger: a bulk Update by criteria held at its Commit while ReplaceById moves a document into the selected range and a reader takes a snapshot (with and without an index on the criteria field)."
	eReadFaults := &core.Engine{Name: "read-faults", Run: RunReadFaults}
	for id, n := range map[string][2]int{"C08": {60, 1500}, "C01": {40, 1000}, "C02": {40, 1000}} {
		core.Registry[id].Uses = append(core.Registry[id].Uses, core.Use{E: eReadFaults, Quick: n[0], Thorough: n[1]})
		core.Registry[id].Rule += " Plus sorted / windowed / filtered queries with every store call failing in turn (the query may fail; a reported success must still be the exact answer)."
	}
	eDDLFaults := &core.Engine{Name: "index-ddl-faults", Run: RunIndexDDLFaults}
	for id, n := range map[string][2]int{"C14": {150, 3000}, "C06": {80, 1500}, "C02": {72, 1500}} {
		core.Registry[id].Uses = append(core.Registry[id].Uses, core.Use{E: eDDLFaults, Quick: n[0], Thorough: n[1]})
		core.Registry[id].Rule += " Plus CreateIndex / DropIndex with one store call failing (positions spread over the cases): the index is then wholly there or wholly gone - catalog, raw entries and queries through the re-created index agree."
	}
	eConcDDL := &core.Engine{Name: "conc-ddl", Run: RunConcDDL}
	for id, n := range map[string][2]int{"C02": {150, 4000}, "C07": {150, 4000}, "C14": {100, 2500}, "C04": {150, 3000}} {
		core.Registry[id].Uses = append(core.Registry[id].Uses, core.Use{E: eConcDDL, Quick: n[0], Thorough: n[1], Race: id == "C07"})
		core.Registry[id].Rule += " Plus index drop/re-creation next to 2-5 goroutines querying the indexed field of an unchanging collection (every answer, during and after, must be exactly the matching documents; readers are delayed after reading a record; in half of the cases a writer makes badger refuse the DDL with a genuine conflict, on the monitored, the unmonitored and the shipped badger store: a refused DDL has no effect)."
	}
	// the directed scenario library runs in every check; a scenario that does not guard the property is a no-op
	eDirected := &core.Engine{Name: "directed", Run: RunDirected}
	for _, p := range core.Registry {
		p.Uses = append(p.Uses, core.Use{E: eDirected, Quick: NumScenarios(), Thorough: NumScenarios()})
		p.Rule += " Plus the deterministic directed scenarios (drive/directed.go) that guard this property, on bbolt, badger in memory and badger on disk."
	}
}
