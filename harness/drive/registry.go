package drive

import (
	"verif/harness/core"
)

var allBackends = []string{BBolt, BBolt, BBolt, BBoltRaw, BadgerMem, BadgerMem, BadgerDisk}

var seqGeneral = &SeqCfg{
	Focus: "general", Ops: [2]int{40, 120}, NColls: [2]int{2, 4}, InitDocs: []int{0, 3, 10, 25, 60},
	AuditEvery: [2]int{15, 40}, Queries: 2, W: weights(nil), Backends: allBackends,
}

func init() {
	eSeqGeneral := &core.Engine{Name: "seq-general", Run: func(c *core.Ctx) { RunSeq(c, seqGeneral) }}

	core.Register(&core.PropSpec{
		ID: "C01", Level: "exploration",
		Rule: "seeded random histories of public operations over 2-4 collections (indexes absent / created before / after the data) run on the real DB next to the reference model; every FindAll answer is compared with the model (ids, full field trees, types). evaluations = oracle comparisons of call outcomes and query answers. A cell <criteria shape | plan kind from the store event log | sort kind | window | index presence> is counted only when the answer was non-empty and not the whole collection.",
		Assumptions: []string{"the reference model (harness/model) encodes the documented semantics", "values and names stay inside the supported domain of DESIGN.md section 5"},
		Uses: []core.Use{{E: eSeqGeneral, Quick: 240, Thorough: 6000}},
	})
}
