package drive

import (
	"verif/harness/core"
	"verif/harness/gen"
)

var allBackends = []string{BBolt, BBolt, BBolt, BBoltRaw, BadgerMem, BadgerMem, BadgerDisk}
var threeBackends = []string{BBolt, BBolt, BadgerMem, BadgerDisk}

var modelAssumptions = []string{
	"the reference model (harness/model) encodes the documented semantics; it is cross-checked on order/Boolean laws by the C10 and C16 checks",
	"values, names and callbacks stay inside the supported domain of DESIGN.md section 5",
}

var seqGeneral = &SeqCfg{
	Focus: "general", Ops: [2]int{40, 120}, NColls: [2]int{2, 4}, InitDocs: []int{0, 3, 10, 25, 60},
	AuditEvery: [2]int{15, 40}, Queries: 2, W: weights(nil), Backends: allBackends,
}

var seqBulk = &SeqCfg{
	Focus: "bulk", Ops: [2]int{5, 12}, NColls: [2]int{1, 2}, InitDocs: []int{0, 1, 2, 5, 17, 37, 60, 100, 150, 400, 1000},
	AuditEvery: [2]int{4, 8}, Queries: 0, Backends: []string{BBolt, BBolt, BBolt, BadgerMem, BadgerDisk, BBoltRaw},
	W: weights(map[string]int{"CreateCollection": 0, "DropCollection": 4, "HasCollection": 0, "ListCollections": 0, "CreateIndex": 6, "DropIndex": 4, "HasIndex": 0, "ListIndexes": 0,
		"Insert": 3, "InsertOne": 0, "Save": 0, "ReplaceById": 0, "UpdateById": 1, "Update": 22, "UpdateFunc": 26, "Delete": 14, "DeleteById": 1,
		"FindAll": 2, "Count": 1, "FindById": 0, "CreateByQuery": 1, "Reopen": 0, "hostileBatchPct": 0, "rewriteIDPct": 0, "badExpPct": 0}),
	IDStyles: true, BigPad: true,
}

var seqBulkBig = &SeqCfg{
	Focus: "bulk-big", Ops: [2]int{3, 6}, NColls: [2]int{1, 1}, InitDocs: []int{1500, 2500, 4000},
	AuditEvery: [2]int{3, 6}, Queries: 0, Backends: []string{BBolt, BBolt, BadgerMem, BadgerDisk},
	W: seqBulk.W, IDStyles: true, BigPad: true,
}

var seqAudit = &SeqCfg{
	Focus: "audit", Ops: [2]int{30, 80}, NColls: [2]int{2, 3}, InitDocs: []int{0, 3, 12, 40, 150},
	AuditEvery: [2]int{2, 6}, Queries: 0, Backends: threeBackends,
	W: weights(map[string]int{"DropCollection": 6, "CreateCollection": 6, "CreateIndex": 10, "DropIndex": 8, "DeleteById": 14, "Delete": 8, "UpdateFunc": 10, "UpdateById": 10,
		"FindAll": 2, "Count": 2, "hostileBatchPct": 30, "rewriteIDPct": 10, "badExpPct": 10, "Reopen": 2}),
	ForceFields: map[string]gen.Profile{"x": {Kind: gen.PSmallInt}, "xy": {Kind: gen.PMixedNum, Nil: 10}, "n.a": {Kind: gen.PSmallInt, Absent: 20}, "n.b": {Kind: gen.PString}},
}

var seqSort = &SeqCfg{
	Focus: "sort", Ops: [2]int{40, 70}, NColls: [2]int{1, 2}, InitDocs: []int{2, 8, 20, 45, 90},
	AuditEvery: [2]int{40, 60}, Queries: 0, Backends: allBackends, CritPct: 55, SortPct: 92, WinPct: 50,
	W: weights(map[string]int{"FindAll": 120, "Count": 4, "CreateIndex": 6, "DropIndex": 3, "Insert": 4, "UpdateById": 4, "DeleteById": 3, "Update": 2, "UpdateFunc": 2, "Delete": 1,
		"CreateCollection": 0, "DropCollection": 0, "Save": 1, "ReplaceById": 1, "InsertOne": 1, "CreateByQuery": 0, "hostileBatchPct": 0}),
}

var seqDerived = &SeqCfg{
	Focus: "derived", Ops: [2]int{30, 70}, NColls: [2]int{1, 3}, InitDocs: []int{0, 1, 5, 20, 50},
	AuditEvery: [2]int{30, 60}, Queries: 1, Derived: true, Backends: allBackends, SortPct: 50, WinPct: 40,
	W: weights(map[string]int{"Derived": 40, "FindAll": 0, "Count": 0, "DeleteById": 12, "hostileBatchPct": 25, "rewriteIDPct": 8, "badExpPct": 8}),
}

var seqIDs = &SeqCfg{
	Focus: "ids", Ops: [2]int{30, 70}, NColls: [2]int{2, 3}, InitDocs: []int{0, 2, 6, 12},
	AuditEvery: [2]int{20, 40}, Queries: 0, Backends: allBackends, SharedIDs: true, IDSweep: true,
	W: weights(map[string]int{"Insert": 20, "InsertOne": 8, "Save": 14, "ReplaceById": 12, "UpdateById": 14, "Update": 8, "UpdateFunc": 8, "FindById": 6, "FindAll": 2,
		"CreateIndex": 3, "DropIndex": 1, "hostileBatchPct": 40, "rewriteIDPct": 30, "badExpPct": 5}),
}

var seqColls = &SeqCfg{
	Focus: "colls", Ops: [2]int{30, 70}, NColls: [2]int{3, 6}, InitDocs: []int{0, 2, 6, 15},
	AuditEvery: [2]int{15, 30}, Queries: 0, Backends: allBackends, SharedIDs: true, CheckOthers: true,
	W: weights(map[string]int{"CreateCollection": 10, "DropCollection": 8, "HasCollection": 5, "ListCollections": 4, "CreateIndex": 6, "DropIndex": 4, "HasIndex": 3, "ListIndexes": 3,
		"CreateByQuery": 4, "FindAll": 4, "Delete": 6, "Update": 6}),
}

var seqIndexes = &SeqCfg{
	Focus: "indexes", Ops: [2]int{30, 60}, NColls: [2]int{1, 2}, InitDocs: []int{0, 3, 10, 30},
	AuditEvery: [2]int{10, 20}, Queries: 1, Backends: allBackends, AuditAfterIndexOps: true, SortPct: 60,
	W: weights(map[string]int{"CreateIndex": 22, "DropIndex": 16, "HasIndex": 6, "ListIndexes": 6, "CreateCollection": 1, "DropCollection": 1, "FindAll": 14}),
	ForceFields: map[string]gen.Profile{"x": {Kind: gen.PSmallInt, Absent: 10}, "xy": {Kind: gen.PMixedNum, Nil: 10}, "n.a": {Kind: gen.PSmallInt, Absent: 20}, "n.b": {Kind: gen.PString}},
}

func seqEngine(name string, cfg *SeqCfg) *core.Engine {
	return &core.Engine{Name: name, Run: func(c *core.Ctx) { RunSeq(c, cfg) }}
}

func init() {
	eGeneral := seqEngine("seq-general", seqGeneral)
	eTwin := &core.Engine{Name: "twin", Run: RunTwin}
	eBulk := seqEngine("seq-bulk", seqBulk)
	eBulkBig := seqEngine("seq-bulk-big", seqBulkBig)
	eAudit := seqEngine("seq-audit", seqAudit)
	eSort := seqEngine("seq-sort", seqSort)
	eDerived := seqEngine("seq-derived", seqDerived)
	eIDs := seqEngine("seq-ids", seqIDs)
	eColls := seqEngine("seq-colls", seqColls)
	eIndexes := seqEngine("seq-indexes", seqIndexes)

	core.Register(&core.PropSpec{
		ID: "C01", Level: "exploration",
		Rule: "seeded random histories of public operations over 2-4 collections (indexes absent / created before / after the data) run on the real DB next to the reference model; every FindAll answer is compared with the model (ids, full field trees, Go types). evaluations = oracle comparisons of call outcomes and query answers. A cell <criteria shape | plan kind from the store event log | sort kind | window | index presence> is counted only when the answer was non-empty and not the whole collection.",
		Assumptions: modelAssumptions,
		Uses: []core.Use{{E: eGeneral, Quick: 240, Thorough: 6000}},
	})
	core.Register(&core.PropSpec{
		ID: "C02", Level: "exploration",
		Rule: "twin collections holding the same documents but different index sets (none / filter field / sort field / unrelated / prefix+dotted siblings), indexes created before the load, after it, mid-history or dropped and re-created; every write goes to all twins, every FindAll/Count runs on all twins and is compared with the model and with the other twins (sets unsorted, sort-key sequences sorted, sizes windowed). A cell <criteria shape | set of plans that ran | sort kind | window> counts only when at least one twin really ran an index plan (store event log) and the answer was non-empty.",
		Assumptions: modelAssumptions,
		Uses: []core.Use{{E: eTwin, Quick: 200, Thorough: 4000}, {E: eGeneral, Quick: 60, Thorough: 1000}},
	})
	core.Register(&core.PropSpec{
		ID: "C03", Level: "exploration",
		Rule: "bulk Update/UpdateFunc/Delete/DropCollection on collections of 0..4000 documents (padding 0-600 B, ids random/clustered/sequential, 0-3 indexes, criteria and sorts on the rewritten field, both updater styles) on bbolt, badger-mem, badger-disk; the UpdateFunc callback records every invocation (exactly once per selected document, on the pre-call value) and the whole collection is compared with the model after each bulk operation. A cell <operation|backend|size class|#indexes|plan|selected class> counts when >= 2 documents were selected.",
		Assumptions: modelAssumptions,
		Uses: []core.Use{{E: eBulk, Quick: 260, Thorough: 5000}, {E: eBulkBig, Quick: 6, Thorough: 150}},
	})
	core.Register(&core.PropSpec{
		ID: "C06", Level: "exploration",
		Rule: "histories skewed to deletes of absent ids, failing operations, drop + re-create of collections and indexes, prefix/dotted sibling indexes, in-place updaters; every 2-6 operations the state-rebuild audit runs: Count/FindAll/model agreement, ordered and range scans through every index vs the model, and the raw key listing of the live store compared key-by-key with a database rebuilt from the logical state (identical key sets, equal decoded values). A cell <preceding operation|backend|#indexes|size class> counts when the audited store held >= 1 index and >= 2 documents.",
		Assumptions: append([]string{"the fresh rebuild (CreateCollection, one Insert, CreateIndex) encodes correctly - that is C10/C17's business"}, modelAssumptions...),
		Uses: []core.Use{{E: eAudit, Quick: 200, Thorough: 5000}},
	})
	core.Register(&core.PropSpec{
		ID: "C08", Level: "exploration",
		Rule: "collections with duplicate, absent, nil and mixed-type sort keys; 1-3 sort options in all direction spellings (0, 2, -3, ...), skip/limit over {-1,0,1,n-1,n,n+3,random}; the returned sort-key tuple sequence must equal the window of the model's fully sorted sequence (absent = nil, or absent before nil), members distinct, live, matching; unsorted windows must have length min(m,max(0,total-n)). A cell is <shape|plan|sort kind|window|index> with a non-empty, non-total answer.",
		Assumptions: modelAssumptions,
		Uses: []core.Use{{E: eSort, Quick: 200, Thorough: 4000}},
	})
	core.Register(&core.PropSpec{
		ID: "C09", Level: "exploration",
		Rule: "for random queries in states reached by histories that include deletes of absent ids and failed operations: FindAll, Count, Exists, FindFirst and ForEach (full and stopping after 1, 2, k, all) run on the same handle and are compared with each other and the model; a structural fingerprint of the query object is compared before/after every API and builder call; the store event log must show no Set/Delete during reads. A cell <criteria?|sorted?|window?|plan|stop class> counts when FindAll had >= 2 documents.",
		Assumptions: modelAssumptions,
		Uses: []core.Use{{E: eDerived, Quick: 200, Thorough: 4000}},
	})
	core.Register(&core.PropSpec{
		ID: "C12", Level: "exploration",
		Rule: "id-focused histories (single and batched inserts with generated and supplied ids, duplicates and malformed ids at random batch positions, ids reused across collections, Save/ReplaceById with matching and mismatching ids, updates rewriting _id); generated ids are checked by an independent canonical-UUID parser and for uniqueness; after every write FindById is called for every id ever used in every collection and must return nil or the model's document whose _id equals the key. Cells are <operation|outcome class> pairs observed.",
		Assumptions: modelAssumptions,
		Uses: []core.Use{{E: eIDs, Quick: 250, Thorough: 5000}},
	})
	core.Register(&core.PropSpec{
		ID: "C13", Level: "exploration",
		Rule: "3-6 collections with hostile names (prefix pairs, names that look like key prefixes, unicode, empty) whose documents reuse the same ids; after every write the catalog and the full content, index list and Count of every OTHER collection are compared with the model. Cells are <operation|outcome class> pairs observed.",
		Assumptions: modelAssumptions,
		Uses: []core.Use{{E: eColls, Quick: 250, Thorough: 5000}},
	})
	core.Register(&core.PropSpec{
		ID: "C14", Level: "exploration",
		Rule: "index create/drop interleaved with writes on schemas that always contain x, xy, n.a, n.b (and n); after every index operation the catalog is compared with the model and every surviving index serves an ordered scan in both directions, a range, an equality and a descending range query that are compared with the model; periodic raw-store audits. Cells are <operation|outcome class> pairs plus audit cells.",
		Assumptions: modelAssumptions,
		Uses: []core.Use{{E: eIndexes, Quick: 250, Thorough: 5000}},
	})
}
