package drive

import (
	"bytes"
	"encoding/json"
	"errors"
	"fmt"
	"sort"
	"strings"

	"github.com/ostafen/clover/v2/document"
	"github.com/ostafen/clover/v2/query"
	"verif/harness/core"

	"verif/harness/model"
	"verif/harness/mon"
)

var errConsumer = errors.New("verif: consumer error")

// ------------------------------------------------------- query fingerprints

type fpVisitor struct{}

func (fpVisitor) VisitUnaryCriteria(c *query.UnaryCriteria) interface{} {
	return fmt.Sprintf("U(%d,%q,%T:%v)", c.OpType, c.Field, c.Value, renderAny(c.Value))
}
func (v fpVisitor) VisitNotCriteria(c *query.NotCriteria) interface{} {
	return "N(" + c.C.Accept(v).(string) + ")"
}
func (v fpVisitor) VisitBinaryCriteria(c *query.BinaryCriteria) interface{} {
	return fmt.Sprintf("B%d(%s,%s)", c.OpType, c.C1.Accept(v).(string), c.C2.Accept(v).(string))
}

func renderAny(v any) string {
	switch x := v.(type) {
	case []any:
		parts := make([]string, len(x))
		for i, e := range x {
			parts[i] = fmt.Sprintf("%T:%s", e, renderAny(e))
		}
		return "[" + strings.Join(parts, ",") + "]"
	case map[string]any:
		return model.Render(x)
	}
	return fmt.Sprintf("%v", v)
}

func fpCriteria(c query.Criteria) string {
	if c == nil {
		return "<nil>"
	}
	return c.Accept(fpVisitor{}).(string)
}

// fpQuery is a structural fingerprint of a query object.
func fpQuery(q *query.Query) string {
	return fmt.Sprintf("coll=%q crit=%s skip=%d limit=%d sort=%v", q.Collection(), fpCriteria(q.Criteria()), q.GetSkip(), q.GetLimit(), q.SortOptions())
}

// ------------------------------------------------------- derived operations

// Derived runs FindAll, Count, Exists, FindFirst and ForEach for one query on
// the same handle, compares each with the model and with FindAll's own answer,
// and checks that the query object is never modified.
func (s *S) Derived(q *model.Query) {
	mc := s.coll(q.Coll)
	if mc == nil {
		return
	}
	cq := q.ToClover()
	fp0 := fpQuery(cq)
	checkFP := func(after string) bool {
		if fp := fpQuery(cq); fp != fp0 {
			s.viol("query-mutated:"+after, "%s modified the query object it was given:\n  before %s\n  after  %s", after, fp0, fp)
			return false
		}
		return true
	}
	name := q.String()

	// FindAll
	var docs []*document.Document
	got, err := s.run("FindAll("+name+")", true, func() (e error) { docs, e = s.h.DB.FindAll(cq); return })
	if !s.expect("FindAll("+name+")", []string{OK}, got, err) || !checkFP("FindAll") {
		return
	}
	all := model.FromDocs(docs)
	planAll := s.plan
	problem, inc := model.CheckResult(q, mc.Docs, all)
	if problem != "" && !inc {
		s.viol("find:"+problemClass(problem)+":"+s.plan, "FindAll(%s): %s", name, problem)
		return
	}
	if inc {
		s.c.Inconclusive("unspecified_comparison")
	}
	ids := make([]string, len(all))
	for i, d := range all {
		ids[i], _ = d["_id"].(string)
	}

	// Count
	var cnt int
	got, err = s.run("Count("+name+")", true, func() (e error) { cnt, e = s.h.DB.Count(cq); return })
	if !s.expect("Count("+name+")", []string{OK}, got, err) || !checkFP("Count") {
		return
	}
	if cnt != len(all) {
		s.viol("derived:count", "Count(%s) = %d but FindAll returned %d documents (indexes %v)", name, cnt, len(all), mc.IndexList())
		return
	}

	limit0 := q.HasLimit && q.Limit == 0
	if !limit0 {
		// Exists
		var ex bool
		got, err = s.run("Exists("+name+")", true, func() (e error) { ex, e = s.h.DB.Exists(cq); return })
		if !s.expect("Exists("+name+")", []string{OK}, got, err) || !checkFP("Exists") {
			return
		}
		if ex != (len(all) > 0) {
			s.viol("derived:exists", "Exists(%s) = %v but FindAll returned %d documents", name, ex, len(all))
			return
		}
		// FindFirst
		var first *document.Document
		got, err = s.run("FindFirst("+name+")", true, func() (e error) { first, e = s.h.DB.FindFirst(cq); return })
		if !s.expect("FindFirst("+name+")", []string{OK}, got, err) || !checkFP("FindFirst") {
			return
		}
		if len(all) == 0 {
			if first != nil {
				s.viol("derived:findfirst", "FindFirst(%s) returned a document but FindAll is empty", name)
				return
			}
		} else {
			if first == nil {
				s.viol("derived:findfirst", "FindFirst(%s) returned nil but FindAll has %d documents", name, len(all))
				return
			}
			fd := model.FromDoc(first)
			if fd["_id"] != ids[0] {
				// the property is literal: FindFirst(q) is the first element of FindAll(q), also among equal sort keys
				s.viol("derived:findfirst:"+planAll, "FindFirst(%s) returned %v but FindAll (plan %s) starts with %v", name, fd["_id"], planAll, ids[0])
				return
			}
		}
	}

	// ForEach: full visit, then early stops
	stops := []int{-1, 1}
	if len(all) >= 2 {
		stops = append(stops, 2, 1+s.r.Intn(len(all)), len(all))
	}
	for _, stop := range stops {
		var seen []string
		var seenDocs []map[string]any
		calls := 0
		label := fmt.Sprintf("ForEach(%s, stop after %d)", name, stop)
		got, err = s.run(label, true, func() error {
			return s.h.DB.ForEach(cq, func(d *document.Document) bool {
				calls++
				seen = append(seen, d.ObjectId())
				seenDocs = append(seenDocs, model.FromDoc(d))
				return stop < 0 || calls < stop
			})
		})
		if !s.expect(label, []string{OK}, got, err) || !checkFP("ForEach") {
			return
		}
		wantCalls := len(all)
		if stop >= 0 && stop < wantCalls {
			wantCalls = stop
		}
		if calls != wantCalls {
			sig := "derived:foreach-count"
			if calls > wantCalls && stop >= 0 {
				sig = "derived:foreach-after-stop"
			}
			s.viol(sig+":"+s.plan, "%s: consumer was called %d times, want %d (FindAll has %d documents; plan %s)", label, calls, wantCalls, len(all), s.plan)
			return
		}
		if strings.Join(seen, ",") != strings.Join(ids[:wantCalls], ",") {
			// literal again: ForEach visits exactly the FindAll sequence
			s.viol("derived:foreach-sequence", "%s visited %v, FindAll returned %v", label, seen, ids)
			return
		}
		_ = seenDocs
		stopClass := "all"
		if stop >= 0 {
			stopClass = "stop"
		}
		if len(all) >= 2 {
			s.c.Cell("derived|crit=%v|sorted=%v|win=%v|%s|%s", q.Crit != nil, q.EffSort() != nil, q.EffSkip() > 0 || q.EffLimit() >= 0, planAll, stopClass)
		}
	}
	s.c.Eval(4 + len(stops))

	// IterateDocs: the consumer's own error must come back, after exactly k calls
	if len(all) > 0 {
		k := 1 + s.r.Intn(len(all))
		calls := 0
		label := fmt.Sprintf("IterateDocs(%s, consumer fails at call %d)", name, k)
		got, err = s.run(label, true, func() error {
			return s.h.DB.IterateDocs(cq, func(d *document.Document) error {
				calls++
				if calls == k {
					return errConsumer
				}
				return nil
			})
		})
		if got == EPanic {
			return
		}
		s.c.Eval(1)
		if !errors.Is(err, errConsumer) {
			s.viol("derived:iteratedocs-error:"+s.plan, "%s returned %v instead of the consumer's error (plan %s)", label, err, s.plan)
			return
		}
		if calls != k {
			s.viol("derived:iteratedocs-after-error:"+s.plan, "%s: consumer called %d times", label, calls)
			return
		}
		s.tr("%s -> consumer error after %d calls", label, calls)
	}

	// builder calls must not touch the receiver
	_ = cq.Skip(3)
	_ = cq.Skip(-1)
	_ = cq.Limit(2)
	_ = cq.Sort(query.SortOption{Field: "zz", Direction: -1})
	_ = cq.Sort()
	_ = cq.Where(query.Field("zz").Eq(1))
	_ = cq.MatchFunc(func(*document.Document) bool { return true })
	if !checkFP("builder methods (Skip/Limit/Sort/Where/MatchFunc)") {
		return
	}
	if c := cq.Criteria(); c != nil {
		f0 := fpCriteria(c)
		_ = c.And(query.Field("zz").Gt(1))
		_ = c.Or(query.Field("zz").Lt(1))
		_ = c.Not()
		if f1 := fpCriteria(c); f1 != f0 {
			s.viol("criteria-mutated", "And/Or/Not modified their receiver:\n  before %s\n  after  %s", f0, f1)
		}
	}
}

// ------------------------------------------------------- audits

// AuditBehaviour checks catalog, counts and every index of every collection
// through the public API.
func (s *S) AuditBehaviour() {
	s.ListCollections()
	for _, name := range s.m.Names() {
		if s.failed {
			return
		}
		mc := s.coll(name)
		s.HasCollection(name)
		s.ListIndexes(name)
		if !s.CompareCollection(name, "audit:collection-content", "audit") {
			return
		}
		s.Count(&model.Query{Coll: name})
		for _, f := range mc.IndexList() {
			if s.failed {
				return
			}
			// ordered iteration through the index, both directions
			for _, dir := range []int{1, -1} {
				q := &model.Query{Coll: name, Sorted: true, Sort: []model.SortOpt{{Field: f, Dir: dir}}}
				s.auditFind(q, "audit:index-ordered-scan")
			}
			// a range query through it
			ids := mc.IDs()
			if len(ids) > 0 {
				pivot := model.Get(mc.Docs[ids[s.r.Intn(len(ids))]], f)
				ok := true
				switch pivot.(type) {
				case uint64, int64, float64, string, bool, nil:
				default:
					ok = model.Rank(pivot) != 6 // times are fine too
					ok = true
				}
				if ok {
					s.auditFind(&model.Query{Coll: name, Crit: model.Cmp(model.OpGtEq, f, model.L(pivot))}, "audit:index-range")
					s.auditFind(&model.Query{Coll: name, Crit: model.Cmp(model.OpEq, f, model.L(pivot))}, "audit:index-eq")
					s.auditFind(&model.Query{Coll: name, Crit: model.Cmp(model.OpLt, f, model.L(pivot)), Sorted: true, Sort: []model.SortOpt{{Field: f, Dir: -1}}}, "audit:index-range-desc")
				}
			}
		}
	}
	s.c.Count("audits_behavioural", 1)
}

func (s *S) auditFind(q *model.Query, sig string) {
	mc := s.coll(q.Coll)
	var docs []*document.Document
	n := "FindAll(" + q.String() + ")"
	got, err := s.run(n, true, func() (e error) { docs, e = s.h.DB.FindAll(q.ToClover()); return })
	if !s.expect(n, []string{OK}, got, err) {
		return
	}
	res := model.FromDocs(docs)
	s.tr("   ids=%v", idsOf(res))
	p, inc := model.CheckResult(q, mc.Docs, res)
	if inc {
		s.c.Inconclusive("unspecified_comparison")
		return
	}
	if p != "" {
		s.viol(sig+":"+problemClass(p), "audit %s on %s (plan %s, indexes %v): %s\n  got %d documents, collection holds %d", n, s.h.Backend, s.plan, mc.IndexList(), p, len(res), len(mc.Docs))
	}
}

// Rebuild builds a fresh database holding the model's logical state by the
// simplest route and returns its raw content.
func Rebuild(m *model.DB) ([]mon.KV, error) {
	f := OpenMem()
	for _, name := range m.Names() {
		mc := m.Colls[name]
		if err := f.DB.CreateCollection(name); err != nil {
			return nil, fmt.Errorf("rebuild CreateCollection(%q): %w", name, err)
		}
		ids := mc.IDs()
		// insert in a few batches (one huge batch and many small ones are both "simple")
		docs := make([]*document.Document, 0, len(ids))
		for _, id := range ids {
			docs = append(docs, model.NewDoc(mc.Docs[id]))
		}
		if len(docs) > 0 {
			if err := f.DB.Insert(name, docs...); err != nil {
				return nil, fmt.Errorf("rebuild Insert(%q): %w", name, err)
			}
		}
		for _, fld := range mc.IndexList() {
			if err := f.DB.CreateIndex(name, fld); err != nil {
				return nil, fmt.Errorf("rebuild CreateIndex(%q,%q): %w", name, fld, err)
			}
		}
	}
	return mon.Snapshot(f.Inner)
}

type catalogValue struct {
	Size    int
	Indexes []struct {
		Field string
		Type  int
	}
}

func (c *catalogValue) canon() string {
	fs := []string{}
	for _, i := range c.Indexes {
		fs = append(fs, fmt.Sprintf("%s/%d", i.Field, i.Type))
	}
	sort.Strings(fs)
	return fmt.Sprintf("size=%d indexes=%q", c.Size, fs)
}

// valuesEquivalent compares two raw values: equal bytes, or equal documents
// after decoding (msgpack map order is not deterministic), or equal catalog
// records up to index order.
func valuesEquivalent(a, b []byte) (bool, string) {
	if bytes.Equal(a, b) {
		return true, ""
	}
	da, ea := document.Decode(a)
	db, eb := document.Decode(b)
	if ea == nil && eb == nil && da != nil && db != nil {
		if d := model.StrictDiff(model.FromDoc(da), model.FromDoc(db)); d != "" {
			return false, "documents differ at " + d
		}
		return true, ""
	}
	var ca, cb catalogValue
	if json.Unmarshal(a, &ca) == nil && json.Unmarshal(b, &cb) == nil {
		if ca.canon() != cb.canon() {
			return false, fmt.Sprintf("catalog records differ: live {%s} vs rebuilt {%s}", ca.canon(), cb.canon())
		}
		return true, ""
	}
	return false, "raw values differ and are neither documents nor catalog records"
}

// DiffStores compares the live store with the rebuilt one.
func DiffStores(live, fresh []mon.KV) (sig, msg string) {
	i, j := 0, 0
	for i < len(live) || j < len(fresh) {
		var c int
		switch {
		case i >= len(live):
			c = 1
		case j >= len(fresh):
			c = -1
		default:
			c = bytes.Compare(live[i].K, fresh[j].K)
		}
		if c < 0 {
			return "audit:residue:" + mon.KeyClass(live[i].K), fmt.Sprintf("stored key %q has no counterpart in a database rebuilt from the logical state (residue or stale entry); live has %d keys, rebuilt %d", live[i].K, len(live), len(fresh))
		}
		if c > 0 {
			return "audit:missing-key:" + mon.KeyClass(fresh[j].K), fmt.Sprintf("key %q expected from the logical state is missing in the store; live has %d keys, rebuilt %d", fresh[j].K, len(live), len(fresh))
		}
		if ok, why := valuesEquivalent(live[i].V, fresh[j].V); !ok {
			return "audit:value:" + mon.KeyClass(live[i].K), fmt.Sprintf("value under key %q: %s", live[i].K, why)
		}
		i++
		j++
	}
	return "", ""
}

// AuditPhysical compares the raw store with a fresh rebuild of the model state.
func (s *S) AuditPhysical(after string) {
	if s.h.Inner == nil || s.failed {
		return
	}
	live, err := s.h.Snapshot()
	if err != nil {
		s.viol("audit:snapshot-error", "raw snapshot failed: %v", err)
		return
	}
	fresh, err := Rebuild(s.m)
	if err != nil {
		s.viol("audit:rebuild-error", "rebuilding the logical state failed: %v", err)
		return
	}
	s.c.Eval(1)
	s.c.Count("audits_physical", 1)
	if sig, msg := DiffStores(live, fresh); sig != "" {
		s.viol(sig, "state-rebuild audit after %s on %s: %s", after, s.h.Backend, msg)
		return
	}
	nIdx, nDocs := 0, 0
	for _, mc := range s.m.Colls {
		nIdx += len(mc.Indexes)
		nDocs += len(mc.Docs)
	}
	if nIdx >= 1 && nDocs >= 2 {
		s.c.Cell("audit|after=%s|%s|idx%d|docs%s", opName(after), s.h.Backend, min(nIdx, 4), sizeClass(nDocs))
	}
}

func (s *S) Audit(after string) {
	s.AuditBehaviour()
	s.AuditPhysical(after)
}

// InsertAliased inserts the SAME *Document several times in one batch (no _id supplied): the second occurrence
// carries the id generated for the first, so the batch must be rejected as a whole.
func (s *S) InsertAliased(coll string, doc map[string]any, times int) {
	n := fmt.Sprintf("Insert(%q, the same *Document x%d, no _id)", coll, times)
	d := model.NewDoc(doc)
	batch := make([]*document.Document, times)
	for i := range batch {
		batch[i] = d
	}
	got, err := s.run(n, false, func() error { return s.h.DB.Insert(coll, batch...) })
	if s.coll(coll) == nil {
		s.expect(n, []string{ECollNo}, got, err)
		return
	}
	s.expect(n, []string{EDup}, got, err)
}

// RunOversized: one operation beyond badger's default transaction size that fails at its very end must leave no
// trace on any backend (a store adapter that flushes behind the scenes would keep the first part).
func RunOversized(c *core.Ctx) {
	r := c.R
	backend := []string{BadgerShip, BBolt, BadgerShip}[c.Case%3]
	h, err := Open(c, backend, "")
	if err != nil {
		c.Violate("open-error", "opening %s failed: %v", backend, err)
		return
	}
	defer h.Destroy()
	s := NewS(c, h)
	s.CreateCollection("big", nil)
	s.CreateIndex("big", "a")
	base := make([]map[string]any, 13)
	for i := range base {
		base[i] = map[string]any{"_id": r.UUID(), "a": int64(i % 5)}
	}
	s.Insert("big", base, false)
	if s.failed {
		return
	}
	blob := strings.Repeat("x", 900<<10)
	// insert: the last document repeats the first id
	docs := make([]*document.Document, 16)
	for i := range docs {
		d := document.NewDocument()
		d.Set("_id", r.UUID())
		d.Set("a", int64(i))
		d.Set("blob", blob)
		docs[i] = d
	}
	docs[15].Set("_id", docs[0].ObjectId())
	name := "Insert(16 x 900 KB, last one a duplicate)"
	got, e := s.run(name, false, func() error { return s.h.DB.Insert("big", docs...) })
	s.expect(name, []string{EDup, EAny}, got, e)
	// bulk update adding the payload to every document, the last result invalid
	ids := s.coll("big").IDs()
	last := ids[len(ids)-1]
	name = "UpdateFunc(adds 900 KB to each of 13 documents, last result invalid)"
	got, e = s.run(name, false, func() error {
		return s.h.DB.UpdateFunc(query.NewQuery("big"), func(d *document.Document) *document.Document {
			n := d.Copy()
			n.Set("blob", blob)
			if d.ObjectId() == last {
				n.Set("_expiresAt", "never")
			}
			return n
		})
	})
	s.expect(name, []string{EAny}, got, e)
	if s.failed {
		return
	}
	if !s.CompareCollection("big", "oversized:partial-effect", "oversized operations that failed") {
		return
	}
	s.Derived(&model.Query{Coll: "big"})
	s.Audit("oversized operations that failed")
	if !s.failed {
		c.Cell("oversized|%s", backend)
		c.Sample(map[string]any{"backend": backend, "scenario": "16 x 900 KB insert with a duplicate last, bulk update with an invalid last result"})
	}
}
