package drive

import (
	"fmt"
	"os"
	"path/filepath"
	"regexp"
	"strings"

	"verif/harness/core"
)

var frameRe = regexp.MustCompile(`(?m)^  ([^\s(]+)\(`)

// parseRaceLogs reads the race detector's log files of a run and turns every
// report that involves clover code into a violation (deduplicated by the pair
// of first clover frames of the two stacks).
func parseRaceLogs(o core.CoordOpts, agg *core.Result) {
	files, _ := filepath.Glob(filepath.Join(o.WorkDir, "race.*"))
	seen := map[string]bool{}
	clover, external := 0, 0
	for _, f := range files {
		b, err := os.ReadFile(f)
		if err != nil {
			continue
		}
		blocks := strings.Split(string(b), "WARNING: DATA RACE")
		for _, blk := range blocks[1:] {
			if i := strings.Index(blk, "=================="); i >= 0 {
				blk = blk[:i]
			}
			if !strings.Contains(blk, "github.com/ostafen/clover") {
				external++
				continue
			}
			clover++
			var frames []string
			for _, m := range frameRe.FindAllStringSubmatch(blk, -1) {
				if strings.Contains(m[1], "github.com/ostafen/clover") {
					frames = append(frames, m[1])
				}
			}
			key := "race"
			if len(frames) > 0 {
				key = frames[0]
				if len(frames) > 1 {
					key += " / " + frames[len(frames)-1]
				}
			}
			if seen[key] {
				continue
			}
			seen[key] = true
			if len(blk) > 5000 {
				blk = blk[:5000]
			}
			agg.Violations = append(agg.Violations, core.Violation{Property: o.Prop, Engine: "race-detector", Tier: o.Tier, Seed: o.Seed,
				What: "the Go race detector reported a data race involving clover code:\nWARNING: DATA RACE" + blk, Signature: "race:" + key})
		}
	}
	agg.Counters["race_reports_clover"] += int64(clover)
	agg.Counters["race_reports_external"] += int64(external)
	agg.Counters["race_log_files"] += int64(len(files))
	if o.RaceBin != "" {
		agg.Cells[fmt.Sprintf("race-build|workload ran under the race detector|reports=%d", clover)]++
	}
}

func init() { core.PostRun["C07"] = parseRaceLogs }
