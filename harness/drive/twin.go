package drive

import (
	"fmt"
	"sort"
	"strings"

	"github.com/ostafen/clover/v2/document"

	"verif/harness/core"
	"verif/harness/gen"
	"verif/harness/model"
)

// RunTwin drives collections that hold the same documents but differ in their
// index sets and in the time at which the indexes were created. Every write is
// applied to all twins; every query runs on all twins and must agree with the
// model and with the other twins (C02).
func RunTwin(c *core.Ctx) {
	r := c.R
	backend := gen.Pick(r, []string{BBolt, BBolt, BadgerMem, BadgerDisk, BBoltRaw})
	h, err := Open(c, backend, "")
	if err != nil {
		c.Violate("open-error", "opening %s failed: %v", backend, err)
		return
	}
	defer h.Destroy()
	cfg := &SeqCfg{Focus: "twin", W: weights(nil), SharedIDs: false}
	d := &seqRun{S: NewS(c, h), cfg: cfg, r: r}

	// schema: filter field F and sort field G get profiles whose values collide often
	hitProfiles := []gen.Profile{{Kind: gen.PSmallInt}, {Kind: gen.PMixedNum}, {Kind: gen.PMixedNum, Nil: 15, Absent: 15}, {Kind: gen.PString, Absent: 10}, {Kind: gen.PMixed, Nil: 10}, {Kind: gen.PTime, Nil: 10}, {Kind: gen.PSmallInt, Absent: 25}, {Kind: gen.PEdge, Nil: 5}, {Kind: gen.PLongStr, Nil: 5}}
	cand := []string{"a", "b", "x", "xy", "n.a", "n.b", "s", "t"}
	F := gen.Pick(r, cand)
	G := gen.Pick(r, cand)
	sch := r.SchemaWith(map[string]gen.Profile{F: gen.Pick(r, hitProfiles), G: gen.Pick(r, hitProfiles), "x": gen.Pick(r, hitProfiles), "xy": gen.Pick(r, hitProfiles), "n.a": gen.Pick(r, hitProfiles)})
	if p, ok := sch.Prof["n.b"]; ok && (p.Kind == gen.PBigInt || p.Kind == gen.PTimeFar) {
		sch.Prof["n.b"] = gen.Profile{Kind: gen.PSmallInt} // twin T4 indexes the object n: keep it inside the key domain
	}
	unrelated := []string{}
	for _, f := range sch.IndexableFields() {
		if f != F && f != G && f != "n" {
			unrelated = append(unrelated, f)
		}
	}
	twins := []*twin{
		{name: "T0"},
		{name: "T1", fields: []string{F}, when: r.Intn(4)},
		{name: "T2", fields: []string{G}, when: r.Intn(4)},
		{name: "T4", fields: []string{"x", "xy", "n.a", "n"}, when: r.Intn(4)},
		{name: "T5", fields: []string{F, G}, when: r.Intn(4)},
	}
	if len(unrelated) > 0 {
		twins = append(twins, &twin{name: "T3", fields: []string{gen.Pick(r, unrelated)}, when: r.Intn(4)})
	}
	// a random subset of 3-5 twins always including T0
	r.Shuffle(len(twins)-1, func(i, j int) { twins[i+1], twins[j+1] = twins[j+1], twins[i+1] })
	twins = twins[:r.Range(3, min(5, len(twins)))]

	createIdx := func(t *twin) {
		for _, f := range t.fields {
			if mc := d.coll(t.name); mc != nil && !mc.Indexes[f] && !d.failed {
				d.CreateIndex(t.name, f)
			}
		}
	}
	for _, t := range twins {
		d.CreateCollection(t.name, sch)
		if t.when == 0 || t.when == 3 {
			createIdx(t)
		}
	}
	// load
	n0 := gen.Pick(r, []int{0, 4, 12, 30, 30, 80, 12, 30, 300, 650})
	docs := d.newDocsClean("T0", n0)
	for _, t := range twins {
		if d.failed {
			return
		}
		d.Insert(t.name, docs, false)
		if t.when == 1 {
			createIdx(t)
		}
	}
	nops := r.Range(15, 45)
	if c.Thorough() {
		nops = r.Range(20, 60)
	}
	mid := nops / 2
	all := func(f func(name string)) {
		for _, t := range twins {
			if d.failed {
				return
			}
			f(t.name)
		}
	}
	for i := 0; i < nops && !d.failed; i++ {
		if i == mid {
			for _, t := range twins {
				if t.when == 2 {
					createIdx(t)
				}
				if t.when == 3 {
					for _, f := range t.fields {
						if !d.failed {
							d.DropIndex(t.name, f)
						}
					}
					// re-created later, after further writes (see below)
				}
			}
			// a broad update while the dropped indexes do not exist
			if n0 > 100 && !d.failed {
				u := d.pickUpdFor(sch, []string{F, G, "x", "xy", "n.a"})
				q := &model.Query{Coll: "T0"}
				if _, ok := d.determinize(q); ok {
					all(func(n string) {
						qq := q.Clone()
						qq.Coll = n
						d.Bulk(BulkUpdateFunc, qq, u)
					})
				}
			}
		}
		if i == mid+(nops-mid)/2 {
			for _, t := range twins {
				if t.when == 3 {
					createIdx(t)
				}
			}
		}
		switch r.Weighted([]int{10, 8, 4, 6, 6, 5, 5, 56}) {
		case 0:
			ds := d.newDocsClean("T0", r.Range(1, 6))
			all(func(n string) { d.Insert(n, ds, false) })
		case 1:
			id := d.pickID("T0")
			u := d.pickUpdFor(sch, []string{F, G, "x", "xy", "n.a"})
			all(func(n string) { d.UpdateById(n, id, u) })
		case 2:
			id := d.pickID("T0")
			doc := r.Doc(sch)
			doc["_id"] = id
			all(func(n string) { d.ReplaceById(n, id, doc) })
		case 3:
			id := d.pickID("T0")
			all(func(n string) { d.DeleteById(n, id) })
		case 4, 5:
			q := d.twinQuery(sch, F, G, "T0")
			if r.P(70) {
				q.HasSkip, q.HasLimit = false, false
			}
			if _, ok := d.determinize(q); !ok {
				continue
			}
			u := d.pickUpdFor(sch, []string{F, G, "x", "xy", "n.a"})
			u.InPlace = r.Bool()
			kind := gen.Pick(r, []int{BulkUpdateMap, BulkUpdateFunc, BulkUpdateFunc})
			all(func(n string) {
				qq := q.Clone()
				qq.Coll = n
				d.Bulk(kind, qq, u)
			})
		case 6:
			q := d.twinQuery(sch, F, G, "T0")
			q.HasSkip, q.HasLimit = false, false
			if mc := d.coll("T0"); mc != nil && len(mc.Docs) < 8 {
				continue // keep some data
			}
			if _, ok := d.determinize(q); !ok {
				continue
			}
			all(func(n string) {
				qq := q.Clone()
				qq.Coll = n
				d.Bulk(BulkDelete, qq, nil)
			})
		default:
			q := d.twinQuery(sch, F, G, "T0")
			d.twinCompare(q, nil)
		}
	}
	if !d.failed {
		d.Audit("twin-history")
		c.Sample(map[string]any{"backend": backend, "twins": twinDesc(twins), "filter_field": F, "sort_field": G, "operations": d.ops, "history_head": head(c.Hist, 10)})
	}
}

type twin struct {
	name   string
	fields []string // planned index set
	when   int      // 0: before load, 1: after load, 2: mid-history, 3: before load + drop/re-create mid-history
}

func twinDesc(ts []*twin) []string {
	out := []string{}
	for _, t := range ts {
		out = append(out, fmt.Sprintf("%s indexes=%v when=%d", t.name, t.fields, t.when))
	}
	return out
}

// pickUpdFor draws an updater that rewrites one of the given fields.
func (d *seqRun) pickUpdFor(sch *gen.Schema, fields []string) *Upd {
	u := &Upd{Name: "upd", Set: map[string]any{}, InPlace: d.r.P(40)}
	f := gen.Pick(d.r, fields)
	if p, ok := sch.Prof[f]; ok {
		u.Set[f] = d.r.Value(p)
	} else {
		u.Set[f] = d.r.Scalar()
	}
	if d.r.P(30) {
		g := gen.Pick(d.r, sch.Fields)
		if g != f && g != "n" && !strings.HasPrefix(f, g+".") && !strings.HasPrefix(g, f+".") {
			u.Set[g] = d.r.Value(sch.Prof[g])
		}
	}
	return u
}

// twinQuery draws a query biased to the planner's cells on fields F (filter) and G (sort).
func (d *seqRun) twinQuery(sch *gen.Schema, F, G, coll string) *model.Query {
	r := d.r
	cx := &gen.CritCtx{S: sch, Docs: d.sampleDocs(coll, 12), Bias: []string{F, F, F, G, "x", "xy", "n.a"}, GoTypes: true}
	n := 0
	if mc := d.coll(coll); mc != nil {
		n = len(mc.Docs)
	}
	q := r.Query(&gen.QueryCtx{Crit: cx, Coll: coll, N: n, SortBias: []string{G, G, G, F, "x", "xy", "n.a", "n"}, CritPct: 85, SortPct: 55, WinPct: 30})
	return q
}

// twinCompare runs one query on every twin, checks each against the model and
// the answers against each other.
func (d *seqRun) twinCompare(q *model.Query, _ []string) {
	names := []string{}
	for _, n := range d.m.Names() {
		if strings.HasPrefix(n, "T") {
			names = append(names, n)
		}
	}
	sort.Strings(names)
	type ans struct {
		name string
		docs []map[string]any
		plan string
		cnt  int
	}
	var answers []ans
	for _, n := range names {
		if d.failed {
			return
		}
		qq := q.Clone()
		qq.Coll = n
		res := d.FindAll(qq)
		if d.failed {
			return
		}
		plan := d.plan
		// Count on the same twin
		var cnt int
		got, err := d.run("Count("+qq.String()+")", true, func() (e error) { cnt, e = d.h.DB.Count(qq.ToClover()); return })
		if !d.expect("Count("+qq.String()+")", []string{OK}, got, err) {
			return
		}
		if res != nil && cnt != len(res) {
			d.viol("twin:count-vs-findall:"+plan, "Count(%s) = %d but FindAll returned %d documents (indexes %v)", qq, cnt, len(res), d.coll(n).IndexList())
			return
		}
		answers = append(answers, ans{n, res, plan, cnt})
	}
	if len(answers) < 2 {
		return
	}
	// cross comparison (also decides cases the model left inconclusive)
	base := answers[0]
	opts := q.EffSort()
	windowed := q.EffSkip() > 0 || q.EffLimit() >= 0
	usedIndex := false
	for _, a := range answers {
		if a.plan != "scan" {
			usedIndex = true
		}
	}
	for _, a := range answers[1:] {
		d.c.Eval(1)
		if len(a.docs) != len(base.docs) {
			d.viol("twin:size:"+a.plan, "%s: twin %s (indexes %v, plan %s) returned %d documents, twin %s (indexes %v, plan %s) returned %d",
				q, a.name, d.coll(a.name).IndexList(), a.plan, len(a.docs), base.name, d.coll(base.name).IndexList(), base.plan, len(base.docs))
			return
		}
		if opts != nil {
			e := &model.Eval{}
			for i := range a.docs {
				for _, o := range opts {
					va, ha := model.Lookup(a.docs[i], o.Field)
					vb, hb := model.Lookup(base.docs[i], o.Field)
					_ = ha
					_ = hb
					if e.Compare(va, vb) != 0 && !e.Unspec {
						d.viol("twin:order:"+a.plan, "%s: position %d sort key %q differs between twin %s (plan %s): %s and twin %s (plan %s): %s",
							q, i, o.Field, a.name, a.plan, model.Render(va), base.name, base.plan, model.Render(vb))
						return
					}
				}
			}
		} else if !windowed {
			if idSet(a.docs) != idSet(base.docs) {
				d.viol("twin:set:"+a.plan, "%s: twin %s (plan %s) and twin %s (plan %s) selected different documents", q, a.name, a.plan, base.name, base.plan)
				return
			}
		}
	}
	if usedIndex && len(base.docs) > 0 {
		shape := "nocrit"
		if q.Crit != nil {
			shape = q.Crit.Shape()
			if len(shape) > 70 {
				shape = fmt.Sprintf("deep%d", q.Crit.Depth())
			}
		}
		plans := map[string]bool{}
		for _, a := range answers {
			plans[a.plan] = true
		}
		sk := "unsorted"
		if opts != nil {
			sk = fmt.Sprintf("sort%d", len(opts))
			if opts[0].Dir < 0 {
				sk += "-"
			}
		}
		d.c.Cell("twin|%s|%s|%s|win=%v", shape, strings.Join(keys(plans), "+"), sk, windowed)
	} else {
		d.c.Count("twin_trivial_comparisons", 1)
	}
}

func idSet(ds []map[string]any) string {
	ids := make([]string, len(ds))
	for i, x := range ds {
		ids[i], _ = x["_id"].(string)
	}
	sort.Strings(ids)
	return strings.Join(ids, ",")
}

var _ = document.ObjectIdField
