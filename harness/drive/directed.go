package drive

import (
	"fmt"
	"strings"
	"time"

	"github.com/ostafen/clover/v2/document"
	"github.com/ostafen/clover/v2/query"

	"verif/harness/core"
	"verif/harness/gen"
	"verif/harness/model"
)

// Directed scenarios: deterministic hostile scripts, one family per defect ever
// found on this code base plus the corner cases the properties name. Expected
// values always come from the model. They run in every check that lists the
// property, whatever the seed.

type scenario struct {
	name  string
	props string // space separated property ids it guards
	run   func(s *S)
}

func fixedID(i int) string { return fmt.Sprintf("00000000-0000-4000-8000-%012x", i) }

func L(v any) model.Operand { return model.L(v) }

// numDocs: x = 1..n, plus a document without x, one with nil x, one with a string.
func numDocs(n int) []map[string]any {
	var ds []map[string]any
	for i := 1; i <= n; i++ {
		ds = append(ds, map[string]any{"_id": fixedID(i), "x": int64(i), "xy": int64(100 + i), "g": int64(i % 3), "n": map[string]any{"a": int64(i % 4), "b": "s"}})
	}
	ds = append(ds,
		map[string]any{"_id": fixedID(900), "g": int64(0)},
		map[string]any{"_id": fixedID(901), "x": nil, "g": int64(1)},
		map[string]any{"_id": fixedID(902), "x": "str", "xy": nil, "g": int64(2)},
		map[string]any{"_id": fixedID(903), "x": float64(5), "xy": float64(2.5), "g": int64(0), "n": int64(3)},
		map[string]any{"_id": fixedID(904), "x": uint64(5), "g": int64(1), "n": map[string]any{"a": nil}},
	)
	return ds
}

func (s *S) twins(docs []map[string]any, idx ...string) {
	s.CreateCollection("plain", nil)
	s.CreateCollection("idx", nil)
	s.Insert("plain", docs, false)
	half := len(idx) / 2
	for _, f := range idx[:half] {
		s.CreateIndex("idx", f) // before the data
	}
	s.Insert("idx", docs, false)
	for _, f := range idx[half:] {
		s.CreateIndex("idx", f) // after the data
	}
}

func (s *S) both(cr *model.Crit, sorts ...model.SortOpt) {
	for _, c := range []string{"plain", "idx"} {
		if s.failed {
			return
		}
		q := &model.Query{Coll: c, Crit: cr}
		if len(sorts) > 0 {
			q.Sorted, q.Sort = true, sorts
		}
		s.FindAll(q)
		s.Count(q)
	}
}

func cmpc(op model.OpKind, f string, v any) *model.Crit { return model.Cmp(op, f, L(v)) }

var scenarios = []scenario{
	{"D1-disjunction-through-index", "C01 C02 C16", func(s *S) {
		s.twins(numDocs(12), "x")
		s.both(model.Or(cmpc(model.OpLt, "x", int64(5)), cmpc(model.OpGt, "x", int64(10))))
		s.both(cmpc(model.OpNeq, "x", int64(5)))
		s.both(model.Not(cmpc(model.OpEq, "x", int64(5))))
		s.both(model.Or(cmpc(model.OpEq, "x", int64(3)), cmpc(model.OpEq, "x", int64(7))))
		s.both(model.And(cmpc(model.OpGt, "x", int64(2)), model.Or(cmpc(model.OpLt, "x", int64(4)), cmpc(model.OpGt, "x", int64(11)))))
		s.both(model.Not(model.And(cmpc(model.OpGtEq, "x", int64(4)), cmpc(model.OpLtEq, "x", int64(9)))))
	}},
	{"D2-nil-bounds", "C02 C01 C17", func(s *S) {
		s.twins(numDocs(8), "x")
		for _, op := range []model.OpKind{model.OpGt, model.OpGtEq, model.OpLt, model.OpLtEq, model.OpEq, model.OpNeq} {
			s.both(cmpc(op, "x", nil))
			s.both(cmpc(op, "x", nil), model.SortOpt{Field: "x", Dir: -1})
		}
		s.both(model.And(cmpc(model.OpLtEq, "x", int64(3)), cmpc(model.OpGtEq, "x", nil)))
		s.both(model.And(cmpc(model.OpGt, "x", nil), cmpc(model.OpLt, "x", int64(7))))
		s.both(model.And(cmpc(model.OpEq, "x", nil), cmpc(model.OpLt, "x", int64(7))))
		s.both(model.And(cmpc(model.OpLt, "x", int64(7)), cmpc(model.OpEq, "x", nil)))
	}},
	{"D4-negations-with-index", "C20 C01 C02", func(s *S) {
		s.twins(numDocs(8), "g", "x")
		for _, cr := range hostileCrits(gen.New(7), "x", "g") {
			s.both(cr)
		}
	}},
	{"D5-field-reference-bounds", "C02 C16 C20", func(s *S) {
		s.twins(numDocs(10), "x")
		for _, op := range []model.OpKind{model.OpGt, model.OpGtEq, model.OpLt, model.OpLtEq, model.OpEq, model.OpNeq} {
			s.both(model.Cmp(op, "x", model.RefF("g")))
			s.both(model.Cmp(op, "x", model.RefD("g")))
			s.both(model.Cmp(op, "x", model.RefF("n.a")))
			s.both(model.Cmp(op, "x", model.RefF("nope")))
		}
	}},
	{"D6-field-reference-in-lists", "C16 C01", func(s *S) {
		docs := numDocs(6)
		docs = append(docs, map[string]any{"_id": fixedID(800), "x": int64(2), "g": int64(2), "arr": []any{int64(2), "a"}}, map[string]any{"_id": fixedID(801), "x": int64(3), "g": int64(9), "arr": []any{int64(9)}})
		s.twins(docs, "x")
		s.both(&model.Crit{Op: model.OpIn, Field: "x", Args: []model.Operand{model.RefF("g")}})
		s.both(&model.Crit{Op: model.OpIn, Field: "x", Args: []model.Operand{model.RefD("g"), L(int64(6))}})
		s.both(&model.Crit{Op: model.OpContains, Field: "arr", Args: []model.Operand{model.RefF("g")}})
		s.both(&model.Crit{Op: model.OpContains, Field: "arr", Args: []model.Operand{model.RefF("x"), L("a")}})
		s.both(model.Not(&model.Crit{Op: model.OpIn, Field: "x", Args: []model.Operand{model.RefF("g")}}))
		// the listed elements are a list, not a set: duplicates (also under other numeric kinds, or through a reference) change nothing
		s.both(&model.Crit{Op: model.OpContains, Field: "arr", Args: []model.Operand{L(int64(2)), L(int64(2)), L("a")}})
		s.both(&model.Crit{Op: model.OpContains, Field: "arr", Args: []model.Operand{L(int64(9)), {Val: int64(9), Go: float64(9)}, {Val: int64(9), Go: uint8(9)}}})
		s.both(&model.Crit{Op: model.OpContains, Field: "arr", Args: []model.Operand{L(int64(9)), model.RefF("g")}})
	}},
	{"D7-times-inside-containers", "C11 C01", func(s *S) {
		t1 := time.Unix(1_600_000_000, 5).In(time.FixedZone("", 7200))
		t2 := time.Date(1950, 3, 1, 0, 0, 0, 0, time.UTC)
		docs := []map[string]any{
			{"_id": fixedID(1), "a": []any{t1}},
			{"_id": fixedID(2), "a": []any{map[string]any{"t": t2, "l": []any{t1, nil}}}},
			{"_id": fixedID(3), "a": map[string]any{"l": []any{t1, t2}}},
			{"_id": fixedID(4), "a": []any{[]any{[]any{t2}}}, "t": t1},
			{"_id": fixedID(5), "a": []any{}, "b": map[string]any{"l": []any{}, "m": map[string]any{}}, "c": []any{[]any{}, map[string]any{}}},
			{"_id": fixedID(6), "a": []any{"created", t1}},
			{"_id": fixedID(7), "a": []any{map[string]any{"msg": "x"}, map[string]any{"msg": "y", "at": t1}}},
		}
		s.CreateCollection("tm", nil)
		s.Insert("tm", docs, false)
		for i := 1; i <= 7 && !s.failed; i++ {
			s.FindById("tm", fixedID(i))
		}
		s.CompareCollection("tm", "roundtrip:findall:directed", "insert")
		s.UpdateById("tm", fixedID(1), &Upd{Name: "set", Set: map[string]any{"b": []any{t2}}})
		s.CreateIndex("tm", "a")
		s.FindAll(&model.Query{Coll: "tm", Sorted: true, Sort: []model.SortOpt{{Field: "a", Dir: 1}}})
		if s.h.Persistent() && !s.failed {
			if err := s.h.Reopen(s.c); err != nil {
				s.viol("reopen:error", "%v", err)
				return
			}
			s.CompareCollection("tm", "roundtrip:findall:directed-reopen", "reopen")
		}
	}},
	{"D8-sorted-foreach-stop", "C09", func(s *S) {
		s.twins(numDocs(9), "g")
		for _, c := range []string{"plain", "idx"} {
			s.Derived(&model.Query{Coll: c, Sorted: true, Sort: []model.SortOpt{{Field: "x", Dir: -1}}})
			s.Derived(&model.Query{Coll: c, Crit: cmpc(model.OpGtEq, "g", int64(1)), Sorted: true, Sort: []model.SortOpt{{Field: "xy", Dir: 1}, {Field: "_id", Dir: -1}}, HasLimit: true, Limit: 5})
			s.Derived(&model.Query{Coll: c, Sorted: true, Sort: []model.SortOpt{{Field: "g", Dir: 1}}, HasSkip: true, Skip: 2})
			s.Derived(&model.Query{Coll: c, Crit: cmpc(model.OpLt, "x", int64(6))})
		}
	}},
	{"D9-delete-absent-id-then-count", "C06 C09", func(s *S) {
		s.twins(numDocs(5), "x")
		for _, c := range []string{"plain", "idx"} {
			s.DeleteById(c, fixedID(777))
			s.DeleteById(c, fixedID(777))
			s.Derived(&model.Query{Coll: c})
			s.Count(&model.Query{Coll: c, HasSkip: true, Skip: 2, HasLimit: true, Limit: 100})
			s.DeleteById(c, fixedID(2))
			s.DeleteById(c, fixedID(2))
			s.Derived(&model.Query{Coll: c})
			// an update function that returns nil removes the document: the counter must follow
			s.Bulk(BulkUpdateFunc, &model.Query{Coll: c, Crit: cmpc(model.OpGtEq, "x", int64(4))}, &Upd{Name: "to_nil", Delete: true})
			s.Derived(&model.Query{Coll: c})
			s.Count(&model.Query{Coll: c, HasSkip: true, Skip: 1})
		}
		s.AuditPhysical("DeleteById(absent)")
	}},
	{"D10-descending-inclusive-bound", "C02 C08 C17", func(s *S) {
		docs := numDocs(9)
		docs = append(docs, map[string]any{"_id": fixedID(700), "x": int64(5), "g": int64(2)}, map[string]any{"_id": fixedID(701), "x": int64(9), "g": int64(2)})
		s.twins(docs, "x")
		desc := model.SortOpt{Field: "x", Dir: -1}
		s.both(cmpc(model.OpLtEq, "x", int64(5)), desc)
		s.both(cmpc(model.OpEq, "x", int64(5)), desc)
		s.both(cmpc(model.OpLt, "x", int64(5)), desc)
		s.both(model.And(cmpc(model.OpGtEq, "x", int64(3)), cmpc(model.OpLtEq, "x", int64(9))), desc)
		s.both(model.And(cmpc(model.OpGt, "x", int64(3)), cmpc(model.OpLt, "x", int64(9))), desc)
		s.both(cmpc(model.OpLtEq, "x", "str"), desc)
		s.both(cmpc(model.OpGtEq, "x", int64(5)), desc)
		s.both(cmpc(model.OpLtEq, "x", int64(5)), model.SortOpt{Field: "x", Dir: 1})
		for _, c := range []string{"plain", "idx"} {
			s.FindAll(&model.Query{Coll: c, Crit: cmpc(model.OpLtEq, "x", int64(9)), Sorted: true, Sort: []model.SortOpt{desc}, HasLimit: true, Limit: 2})
		}
	}},
	{"D11-sibling-index-names", "C14 C06 C02", func(s *S) {
		s.twins(numDocs(10), "x", "xy", "n", "n.a")
		asc := func(f string) model.SortOpt { return model.SortOpt{Field: f, Dir: 1} }
		for _, f := range []string{"x", "xy", "n", "n.a"} {
			s.both(nil, asc(f))
			s.both(nil, model.SortOpt{Field: f, Dir: -1})
		}
		s.both(cmpc(model.OpGt, "x", int64(3)))
		s.both(cmpc(model.OpGtEq, "n", int64(0)))
		s.AuditPhysical("sibling indexes")
		s.DropIndex("idx", "x")
		s.ListIndexes("idx")
		for _, f := range []string{"x", "xy", "n", "n.a"} {
			s.HasIndex("idx", f)
		}
		s.both(nil, asc("xy"))
		s.both(cmpc(model.OpGt, "xy", int64(103)))
		s.AuditPhysical("DropIndex(x)")
		s.DropIndex("idx", "n")
		s.ListIndexes("idx")
		s.CreateIndex("idx", "n.a") // exists
		s.both(nil, asc("n.a"))
		s.both(cmpc(model.OpGtEq, "n.a", int64(1)))
		s.AuditPhysical("DropIndex(n)")
		s.CreateIndex("idx", "x")
		s.CreateIndex("idx", "n")
		s.both(nil, asc("x"))
		s.both(nil, asc("n"))
		s.Audit("re-created sibling indexes")
	}},
	{"D12-bulk-under-cursor", "C03 C06 C13", func(s *S) {
		r := gen.New(12)
		for round, n := range []int{37, 120, 400, 1300} {
			name := fmt.Sprintf("b%d", round)
			s.CreateCollection(name, nil)
			s.CreateIndex(name, "x")
			docs := make([]map[string]any, n)
			for i := range docs {
				docs[i] = map[string]any{"_id": r.UUID(), "x": int64(i % 50), "g": int64(i % 2), "pad": fmt.Sprintf("%0*d", 20+(i*7)%300, i)}
			}
			s.Insert(name, docs, false)
			// index-driven update moving the indexed value forward, then backward
			s.Bulk(BulkUpdateFunc, &model.Query{Coll: name, Crit: cmpc(model.OpGtEq, "x", int64(10))}, &Upd{Name: "forward", Set: map[string]any{"x": int64(1000)}})
			s.Bulk(BulkUpdateMap, &model.Query{Coll: name, Crit: cmpc(model.OpGtEq, "x", int64(5))}, &Upd{Name: "backward", Set: map[string]any{"x": int64(-5)}})
			s.Bulk(BulkUpdateFunc, &model.Query{Coll: name, Sorted: true, Sort: []model.SortOpt{{Field: "x", Dir: 1}}}, &Upd{Name: "all-inplace", InPlace: true, Set: map[string]any{"x": int64(7), "p": int64(1)}})
			s.AuditPhysical("bulk updates")
			// sort + skip without a limit: the skipped documents are the first ones in SORT order
			s.Bulk(BulkUpdateFunc, &model.Query{Coll: name, Sorted: true, Sort: []model.SortOpt{{Field: "pad", Dir: -1}, {Field: "_id", Dir: 1}}, HasSkip: true, Skip: 5}, &Upd{Name: "skip-sorted", Set: map[string]any{"q": int64(1)}})
			s.Bulk(BulkDelete, &model.Query{Coll: name, Crit: cmpc(model.OpEq, "g", int64(0)), Sorted: true, Sort: []model.SortOpt{{Field: "pad", Dir: 1}, {Field: "_id", Dir: -1}}, HasSkip: true, Skip: 3}, nil)
			s.Bulk(BulkDelete, &model.Query{Coll: name, Crit: cmpc(model.OpEq, "g", int64(1))}, nil)
			s.AuditPhysical("bulk delete")
			s.DropIndex(name, "x")
			s.AuditPhysical("DropIndex")
			s.CreateIndex(name, "g")
			s.DropCollection(name)
			s.AuditPhysical("DropCollection")
			s.CreateCollection(name, nil)
			s.CompareCollection(name, "recreate:not-empty", "DropCollection+CreateCollection")
			if s.failed {
				return
			}
		}
	}},
	{"D13-update-rewrites-id", "C12 C06", func(s *S) {
		s.twins(numDocs(4), "x")
		for _, c := range []string{"plain", "idx"} {
			s.UpdateById(c, fixedID(1), &Upd{Name: "rewrite_id", NewID: fixedID(555), Set: map[string]any{"x": int64(50)}})
			s.UpdateById(c, fixedID(2), &Upd{Name: "rewrite_id", NewID: fixedID(3), InPlace: true, Set: map[string]any{}})
			s.Bulk(BulkUpdateMap, &model.Query{Coll: c, Crit: cmpc(model.OpEq, "x", int64(4))}, &Upd{Name: "rewrite_id", NewID: fixedID(556), Set: map[string]any{}})
			s.Bulk(BulkUpdateFunc, &model.Query{Coll: c, Crit: cmpc(model.OpEq, "x", int64(3))}, &Upd{Name: "rewrite_id", NewID: fixedID(1), InPlace: true, Set: map[string]any{}})
			s.UpdateById(c, fixedID(4), &Upd{Name: "rewrite_id", NewID: "x", SpellingOfOwnID: true, Set: map[string]any{"x": int64(8)}})
			s.Bulk(BulkUpdateFunc, &model.Query{Coll: c, Crit: cmpc(model.OpEq, "x", int64(2))}, &Upd{Name: "rewrite_id", NewID: "x", SpellingOfOwnID: true, InPlace: true, Set: map[string]any{}})
			s.ReplaceById(c, fixedID(1), map[string]any{"_id": otherCase(fixedID(1) + ""), "x": int64(1)})
			// a batch repeating one of its own ids, and one repeating a stored id, must fail as a whole
			s.Insert(c, []map[string]any{{"_id": fixedID(70), "x": int64(1)}, {"_id": fixedID(71)}, {"_id": fixedID(70), "x": int64(2)}}, false)
			s.Insert(c, []map[string]any{{"_id": fixedID(72)}, {"_id": fixedID(1)}}, false)
			s.Insert(c, []map[string]any{{"_id": fixedID(73)}, {"_id": "zz"}}, false)
			s.Insert(c, []map[string]any{{"_id": fixedID(74)}, {"_id": "zz", "_expiresAt": time.Date(2100, 1, 1, 0, 0, 0, 0, time.UTC)}}, false)
			s.InsertAliased(c, map[string]any{"x": int64(1)}, 2)
			s.InsertAliased(c, map[string]any{"_id": "", "x": int64(2)}, 3)
			s.UpdateById(c, fixedID(3), &Upd{Name: "rewrite_id_dotted", Set: map[string]any{"_id.rev": int64(2)}})
			s.Bulk(BulkUpdateMap, &model.Query{Coll: c, Crit: cmpc(model.OpEq, "x", int64(1))}, &Upd{Name: "rewrite_id_dotted", Set: map[string]any{"_id.rev": int64(3)}})
			s.Count(&model.Query{Coll: c})
			for _, i := range []int{1, 2, 3, 4, 555, 556, 70, 71, 72, 73} {
				s.FindById(c, fixedID(i))
			}
			s.FindById(c, otherCase(fixedID(4)))
			s.CompareCollection(c, "id:collection-after-rewrite", "id rewrites")
		}
		s.AuditPhysical("id rewrites")
	}},
	{"D14-index-catalog-on-missing-collection", "C20 C14 C13", func(s *S) {
		s.CreateCollection("here", nil)
		s.ListIndexes("nope")
		s.HasIndex("nope", "a")
		s.UpdateById("nope", fixedID(1), &Upd{Name: "set", Set: map[string]any{"a": int64(1)}})
		s.ReplaceById("nope", fixedID(1), map[string]any{"_id": fixedID(1)})
		s.DeleteById("nope", fixedID(1))
		s.Insert("nope", []map[string]any{{"_id": fixedID(1)}}, false)
		s.Insert("here", []map[string]any{{"_id": fixedID(1)}}, false) // the handle still takes writes
		s.CreateIndex("nope", "a")
		s.DropIndex("nope", "a")
		s.ListIndexes("here")
		s.DropIndex("here", "a")
		s.CreateIndex("here", "a")
		s.CreateIndex("here", "a")
		s.ListIndexes("here")
		s.DropCollection("here")
		s.ListIndexes("here")
		s.HasIndex("here", "a")
	}},
	{"D17-pointers-to-times", "C18", func(s *S) {
		t := time.Unix(1_600_000_000, 7).UTC()
		pt := &t
		ppt := &pt
		var nilT *time.Time
		type withTimes struct {
			P  *time.Time
			PP **time.Time
			N  *time.Time
			L  []*time.Time
		}
		cases := []struct {
			v    any
			want any
		}{
			{pt, t}, {ppt, t}, {nilT, nil}, {&nilT, nil},
			{[]*time.Time{pt, nil}, []any{t, nil}},
			{map[string]*time.Time{"k": pt}, map[string]any{"k": t}},
			{withTimes{P: pt, PP: ppt, N: nil, L: []*time.Time{pt}}, map[string]any{"P": t, "PP": t, "N": nil, "L": []any{t}}},
		}
		for _, cs := range cases {
			doc := document.NewDocument()
			doc.Set("t", cs.v)
			s.c.Eval(1)
			if !doc.Has("t") {
				s.viol("normalize:rejected:time-pointer", "Set(%T) left the field unset", cs.v)
				return
			}
			if d := model.StrictDiff(cs.want, model.DeepCopy(doc.Get("t"))); d != "" {
				s.viol("normalize:non-canonical:Time|ptr1", "Set(%T): %s", cs.v, d)
				return
			}
		}
		// omitempty looks at the field itself: a non-nil pointer to a zero value is not empty
		zero, empty := 0, ""
		type omit struct {
			C *int    `clover:"c,omitempty"`
			S *string `clover:",omitempty"`
			N *int    `clover:"n,omitempty"`
			I any     `clover:"i,omitempty"`
		}
		od := document.NewDocumentOf(omit{C: &zero, S: &empty, N: nil, I: 0})
		want := map[string]any{"c": int64(0), "S": "", "i": int64(0)}
		if od == nil {
			s.viol("normalize:newdocumentof-nil", "NewDocumentOf(struct) returned nil")
			return
		}
		if d := model.StrictDiff(want, model.FromDoc(od)); d != "" {
			s.viol("normalize:value:omitempty", "omitempty with non-nil pointers to zero values: %s (got %s)", d, model.Render(model.FromDoc(od)))
			return
		}
		s.c.Cell("directed|pointers-to-times")
	}},
	{"D18-inplace-updater-with-index", "C06 C02 C03", func(s *S) {
		s.twins(numDocs(8), "x", "g")
		for _, c := range []string{"plain", "idx"} {
			s.UpdateById(c, fixedID(3), &Upd{Name: "inplace", InPlace: true, Set: map[string]any{"x": int64(77)}})
			s.Bulk(BulkUpdateFunc, &model.Query{Coll: c, Crit: cmpc(model.OpEq, "g", int64(1))}, &Upd{Name: "inplace", InPlace: true, Set: map[string]any{"x": int64(-1), "g": int64(5)}})
			s.FindAll(&model.Query{Coll: c, Sorted: true, Sort: []model.SortOpt{{Field: "x", Dir: 1}}})
			s.FindAll(&model.Query{Coll: c, Sorted: true, Sort: []model.SortOpt{{Field: "g", Dir: -1}}})
			s.FindAll(&model.Query{Coll: c, Crit: cmpc(model.OpEq, "x", int64(3))})
			s.FindAll(&model.Query{Coll: c, Crit: cmpc(model.OpEq, "g", int64(1))})
		}
		s.Audit("in-place updaters")
	}},
	{"update-map-paths-vs-dotted-indexes", "C01 C02 C06 C14", func(s *S) {
		s.twins(numDocs(9), "n.a", "n", "x")
		asc := func(f string) model.SortOpt { return model.SortOpt{Field: f, Dir: 1} }
		chk := func(after string) {
			s.both(cmpc(model.OpGtEq, "n.a", int64(40)))
			s.both(cmpc(model.OpEq, "n.a", int64(50)))
			s.both(nil, asc("n.a"))
			s.both(nil, asc("n"))
			s.both(cmpc(model.OpGtEq, "n", map[string]any{"a": int64(40)}))
			s.AuditPhysical(after)
		}
		for _, c := range []string{"plain", "idx"} {
			// write an ancestor of the indexed path
			s.Bulk(BulkUpdateMap, &model.Query{Coll: c, Crit: cmpc(model.OpLtEq, "x", int64(3))}, &Upd{Name: "set-parent", Set: map[string]any{"n": map[string]any{"a": int64(50), "b": "new"}}})
		}
		chk("Update(n = object)")
		for _, c := range []string{"plain", "idx"} {
			// write a descendant of the indexed object
			s.Bulk(BulkUpdateMap, &model.Query{Coll: c, Crit: cmpc(model.OpGtEq, "x", int64(7))}, &Upd{Name: "set-child", Set: map[string]any{"n.a": int64(41)}})
			s.UpdateById(c, fixedID(5), &Upd{Name: "set-child", Set: map[string]any{"n.b": "zz"}})
		}
		chk("Update(n.a = value)")
		for _, c := range []string{"plain", "idx"} {
			s.Bulk(BulkUpdateMap, &model.Query{Coll: c, Crit: cmpc(model.OpEq, "x", int64(5))}, &Upd{Name: "set-parent-scalar", Set: map[string]any{"n": int64(3)}})
			s.Bulk(BulkDelete, &model.Query{Coll: c, Crit: cmpc(model.OpGtEq, "n.a", int64(45))}, nil)
		}
		chk("Update(n = scalar), Delete through n.a")
	}},
	{"mixed-type-sorts-and-windows", "C08 C02", func(s *S) {
		docs := numDocs(7)
		docs = append(docs,
			map[string]any{"_id": fixedID(600), "x": true, "g": nil}, map[string]any{"_id": fixedID(601), "x": []any{int64(1)}, "g": int64(1)},
			map[string]any{"_id": fixedID(602), "x": map[string]any{"a": int64(1)}}, map[string]any{"_id": fixedID(603), "x": time.Unix(1_600_000_000, 0).UTC(), "g": "z"},
			map[string]any{"_id": fixedID(604), "x": int64(3), "g": int64(1)}, map[string]any{"_id": fixedID(605), "x": float64(3), "g": int64(2)})
		s.twins(docs, "x", "g")
		n := len(docs)
		for _, c := range []string{"plain", "idx"} {
			for _, dir := range []int{1, -1, 0, 5, -9} {
				for _, w := range [][2]int{{-1, -1}, {0, 0}, {0, 1}, {1, 3}, {3, n}, {n - 1, 5}, {n, 1}, {n + 3, 2}, {2, -1}, {3, -2}, {1, -7}, {-4, -9}} {
					q := &model.Query{Coll: c, Sorted: true, Sort: []model.SortOpt{{Field: "x", Dir: dir}}, HasSkip: true, Skip: w[0], HasLimit: true, Limit: w[1]}
					s.FindAll(q)
					q2 := &model.Query{Coll: c, Sorted: true, Sort: []model.SortOpt{{Field: "g", Dir: dir}, {Field: "x", Dir: -dir}}, HasSkip: true, Skip: w[0], HasLimit: true, Limit: w[1]}
					s.FindAll(q2)
					s.FindAll(&model.Query{Coll: c, HasSkip: true, Skip: w[0], HasLimit: true, Limit: w[1]})
					if s.failed {
						return
					}
				}
			}
			s.FindAll(&model.Query{Coll: c, Sorted: true})
			s.FindAll(&model.Query{Coll: c, Sorted: true, HasLimit: true, Limit: 3})
		}
	}},
	{"large-collection-index-ddl", "C07 C14 C06 C02 C08", func(s *S) {
		// index and collection DDL on a collection that is larger than any batching / background threshold a
		// store layer is likely to use; whatever DropIndex and DropCollection do, it is complete when they return
		base := numDocs(800)
		docs := append(append([]map[string]any{}, base[800:]...), base[:800]...) // the five odd ones (no x, nil, string, ...) first
		for i := 1000; len(docs) < 4305; i++ {
			docs = append(docs, map[string]any{"_id": fixedID(i), "x": int64(i), "g": int64(i % 3)})
		}
		s.CreateCollection("big", nil)
		s.Insert("big", docs, false)
		s.CreateIndex("big", "x")
		page := &model.Query{Coll: "big", Sorted: true, Sort: []model.SortOpt{{Field: "x", Dir: 1}}, HasSkip: true, Skip: 100, HasLimit: true, Limit: 50}
		pageDesc := &model.Query{Coll: "big", Crit: cmpc(model.OpGtEq, "g", int64(0)), Sorted: true, Sort: []model.SortOpt{{Field: "x", Dir: -1}}, HasSkip: true, Skip: 4200, HasLimit: true, Limit: 20}
		s.FindAll(page) // the same page of the same order, served by the index ...
		s.FindAll(pageDesc)
		s.DropIndex("big", "x")
		s.FindAll(page) // ... and by a sort over all 4305 documents
		s.FindAll(pageDesc)
		s.CreateIndex("big", "x")
		s.DropIndex("big", "x")
		// one operation between the two: whatever DropIndex left for later is still pending (the monitor holds
		// foreign write transactions back for three operations) when the index is created again
		s.UpdateById("big", fixedID(7), &Upd{Name: "set", Set: map[string]any{"x": int64(100007)}})
		s.CreateIndex("big", "x")
		s.FindAll(&model.Query{Coll: "big", Sorted: true, Sort: []model.SortOpt{{Field: "x", Dir: 1}}})
		s.Count(&model.Query{Coll: "big", Crit: cmpc(model.OpGtEq, "x", int64(0))})
		s.FindAll(&model.Query{Coll: "big", Crit: cmpc(model.OpLtEq, "x", int64(40))})
		s.FindAll(&model.Query{Coll: "big", Crit: cmpc(model.OpGtEq, "x", int64(100000))})
		s.AuditPhysical("DropIndex, updates, CreateIndex on 4300 documents")
		if s.failed {
			return
		}
		s.DropIndex("big", "x")
		s.Bulk(BulkDelete, &model.Query{Coll: "big", Crit: cmpc(model.OpGt, "x", int64(30))}, nil)
		s.CreateIndex("big", "x")
		s.FindAll(&model.Query{Coll: "big", Sorted: true, Sort: []model.SortOpt{{Field: "x", Dir: -1}}})
		s.Count(&model.Query{Coll: "big", Crit: cmpc(model.OpGtEq, "x", int64(0))})
		s.AuditPhysical("DropIndex, bulk delete, CreateIndex")
		if s.failed {
			return
		}
		s.Insert("big", docs[40:], false)
		s.DropCollection("big")
		s.CreateCollection("big", nil)
		s.Insert("big", docs[:60], false)
		s.CreateIndex("big", "x")
		s.FindAll(&model.Query{Coll: "big", Sorted: true, Sort: []model.SortOpt{{Field: "x", Dir: 1}}})
		s.Count(&model.Query{Coll: "big", Crit: cmpc(model.OpGtEq, "x", int64(0))})
		s.Audit("DropCollection of 4300 documents, re-creation under the same name")
	}},
	{"large-batch-duplicates", "C12 C03 C04 C06", func(s *S) {
		// a duplicate _id far into a batch larger than any plausible internal chunk: ErrDuplicateKey, and nothing is stored
		mk := func(from, n int) []map[string]any {
			out := make([]map[string]any, n)
			for i := range out {
				out[i] = map[string]any{"_id": fixedID(from + i), "a": int64((from + i) % 7)}
			}
			return out
		}
		s.CreateCollection("b", nil)
		s.CreateIndex("b", "a")
		s.Insert("b", mk(1, 3), false)
		all := &model.Query{Coll: "b"}
		dupInBatch := mk(100, 10500)
		dupInBatch[10499] = map[string]any{"_id": fixedID(110), "a": int64(1)} // repeats a document of the same batch
		s.Insert("b", dupInBatch, false)
		s.Count(all)
		dupStored := mk(20000, 10500)
		dupStored[10001] = map[string]any{"_id": fixedID(2), "a": int64(1)} // repeats a stored document, just after position 10000
		s.Insert("b", dupStored, false)
		s.Count(all)
		s.FindAll(all)
		twice := mk(40000, 20001)
		twice[20000] = map[string]any{"_id": fixedID(40001), "a": int64(5)}
		s.Insert("b", twice, false)
		s.Count(all)
		s.Count(&model.Query{Coll: "b", Crit: cmpc(model.OpGtEq, "a", int64(0))})
		s.AuditPhysical("three refused batches of more than 10000 documents")
		if s.failed {
			return
		}
		s.Insert("b", mk(100, 10500), false) // and the same batch without the duplicate goes in whole
		s.Count(all)
		s.Count(&model.Query{Coll: "b", Crit: cmpc(model.OpEq, "a", int64(3))})
	}},
	{"long-collection-and-field-names", "C13 C14 C06 C02 C12", func(s *S) {
		// names whose key prefixes fall just below an allocator size class (room for an id or a value behind the
		// prefix in the same allocation): 520 and 1030 byte names, an index on a 520-byte field, neighbours that
		// differ in the last byte only
		long := func(ch string, n int) string { return "L" + strings.Repeat(ch, n-1) }
		cA, cB, cC := long("n", 520), long("n", 519)+"m", long("q", 1030)
		fA, fB := long("f", 520), long("f", 519)+"g"
		docs := func(from int) []map[string]any {
			var out []map[string]any
			for i := 0; i < 9; i++ {
				out = append(out, map[string]any{"_id": fixedID(from + i), fA: int64(i % 4), fB: int64(8 - i), "x": int64(i)})
			}
			return out
		}
		for k, c := range []string{cA, cB, cC} {
			s.CreateCollection(c, nil)
			s.CreateIndex(c, fA)
			s.Insert(c, docs(100*k), false)
			s.CreateIndex(c, fB)
		}
		for _, c := range []string{cA, cB, cC} {
			s.FindAll(&model.Query{Coll: c, Crit: cmpc(model.OpGtEq, fA, int64(2))})
			s.FindAll(&model.Query{Coll: c, Sorted: true, Sort: []model.SortOpt{{Field: fB, Dir: -1}}, HasLimit: true, Limit: 4})
			s.Count(&model.Query{Coll: c, Crit: cmpc(model.OpLt, fB, int64(5))})
		}
		s.Bulk(BulkUpdateMap, &model.Query{Coll: cA, Crit: cmpc(model.OpLtEq, "x", int64(4))}, &Upd{Name: "set", Set: map[string]any{fA: int64(40), fB: int64(-1)}})
		s.Bulk(BulkDelete, &model.Query{Coll: cB, Crit: cmpc(model.OpGtEq, fA, int64(3))}, nil)
		s.UpdateById(cC, fixedID(203), &Upd{Name: "set", Set: map[string]any{fA: "now a string"}})
		s.AuditPhysical("writes on collections with 520 / 1030 byte names")
		if s.failed {
			return
		}
		s.DropIndex(cA, fA)
		s.DropCollection(cB)
		s.Audit("DropIndex / DropCollection on long names")
	}},
	{"huge-collection-drop-and-delete", "C13 C06 C03", func(s *S) {
		// more documents than 2^15 (and, on bbolt, than 2^16): DropCollection and Delete remove every one of them, a
		// collection created afterwards under the same name starts empty. (badger: 40000 documents without an index,
		// written in two batches, so that every transaction stays below badger's own size limit.)
		n, indexed := 70000, true
		if s.h.Backend != BBolt {
			n, indexed = 40000, false
		}
		docs := make([]map[string]any, n)
		for i := range docs {
			docs[i] = map[string]any{"_id": fixedID(i + 1), "g": int64(i % 7), "x": int64(i)}
		}
		all := &model.Query{Coll: "huge"}
		s.CreateCollection("huge", nil)
		if indexed {
			s.CreateIndex("huge", "g")
		}
		s.Insert("huge", docs[:n/2], false)
		s.Insert("huge", docs[n/2:], false)
		s.Count(all)
		s.Count(&model.Query{Coll: "huge", Crit: cmpc(model.OpEq, "g", int64(3))})
		s.DropCollection("huge")
		s.HasCollection("huge")
		s.CreateCollection("huge", nil)
		s.Count(all)
		s.FindAll(all)
		s.Insert("huge", docs[n-20:], false) // the ids the paging would have skipped are free again
		s.Insert("huge", docs[:n-20], false)
		s.AuditPhysical("DropCollection of a huge collection, re-creation under the same name")
		if s.failed {
			return
		}
		s.Bulk(BulkDelete, &model.Query{Coll: "huge", Crit: cmpc(model.OpGtEq, "x", int64(5))}, nil)
		s.Count(all)
		s.FindAll(all)
		s.AuditPhysical("Delete of all but five documents of a huge collection")
	}},
	{"id-criteria-with-references", "C09 C16 C01 C12", func(s *S) {
		// criteria on _id whose operand is a reference ("$name" string or Field(name)): nothing may take the
		// operand for a literal id and answer with a key lookup
		docs := []map[string]any{
			{"_id": fixedID(1), "self": fixedID(1), "other": fixedID(2), "x": int64(1)},
			{"_id": fixedID(2), "self": fixedID(2), "other": fixedID(2), "x": int64(2)},
			{"_id": fixedID(3), "self": "nobody", "other": fixedID(1), "x": int64(3)},
			{"_id": fixedID(4), "x": int64(4)},
		}
		s.twins(docs, "_id", "self")
		for _, c := range []string{"plain", "idx"} {
			for _, op := range []model.OpKind{model.OpEq, model.OpNeq, model.OpGtEq, model.OpLt} {
				for _, arg := range []model.Operand{model.RefD("_id"), model.RefD("self"), model.RefD("other"), model.RefD("missing"), model.RefF("self"), model.RefF("_id"), L(fixedID(2)), L(fixedID(9)), L("$"), L(nil)} {
					for _, sorted := range []bool{false, true} {
						q := &model.Query{Coll: c, Crit: model.Cmp(op, "_id", arg)}
						if sorted {
							q.Sorted, q.Sort = true, []model.SortOpt{{Field: "x", Dir: -1}}
						}
						s.Derived(q)
						if s.failed {
							return
						}
					}
				}
			}
			s.Derived(&model.Query{Coll: c, Crit: model.Cmp(model.OpEq, "self", model.RefD("_id"))})
			s.Derived(&model.Query{Coll: c, Crit: &model.Crit{Op: model.OpIn, Field: "_id", Args: []model.Operand{model.RefD("other"), L(fixedID(4))}}})
			s.Derived(&model.Query{Coll: c, Crit: model.Cmp(model.OpEq, "_id", model.RefD("self")), HasSkip: true, Skip: 1})
		}
	}},
	{"empty-first-collection-with-index", "C15 C20 C08 C17 C02", func(s *S) {
		// an indexed collection without documents whose keys come first in the store (nothing sorts before
		// them): every bound, direction and window; then the same with one document
		for _, name := range []string{"", "!", "A"} {
			s.CreateCollection(name, nil)
			s.CreateIndex(name, "f")
			s.CreateIndex(name, "!")
			for round := 0; round < 2; round++ {
				for _, fld := range []string{"f", "!"} {
					for _, op := range []model.OpKind{model.OpLt, model.OpLtEq, model.OpGt, model.OpGtEq, model.OpEq, model.OpNeq} {
						for _, v := range []any{int64(5), "m", nil, false} {
							for _, dir := range []int{0, 1, -1} {
								q := &model.Query{Coll: name, Crit: cmpc(op, fld, v)}
								if dir != 0 {
									q.Sorted, q.Sort = true, []model.SortOpt{{Field: fld, Dir: dir}}
								}
								s.FindAll(q)
								if s.failed {
									return
								}
							}
						}
						s.Count(&model.Query{Coll: name, Crit: model.And(cmpc(model.OpGt, fld, int64(1)), cmpc(op, fld, int64(9)))})
					}
					s.FindAll(&model.Query{Coll: name, Sorted: true, Sort: []model.SortOpt{{Field: fld, Dir: -1}}, HasSkip: true, Skip: 1, HasLimit: true, Limit: 2})
				}
				s.Bulk(BulkDelete, &model.Query{Coll: name, Crit: cmpc(model.OpLt, "f", int64(3)), Sorted: true, Sort: []model.SortOpt{{Field: "f", Dir: -1}}}, nil)
				if round == 0 {
					s.Insert(name, []map[string]any{{"_id": fixedID(1), "f": int64(7), "!": "z"}}, false)
				}
			}
			s.Bulk(BulkDelete, &model.Query{Coll: name}, nil)
		}
		s.Audit("queries on empty indexed collections at the front of the key space")
	}},
	{"index-ddl-beyond-2^17-documents", "C14 C06 C13", func(s *S) {
		// bbolt only (badger refuses transactions of that size): 140000 documents, so that dropping an index or a
		// collection removes more than 2^17 keys. In the quick tier only C14 runs it (about 12 s on one worker);
		// the other checks stop at 70000 documents there (scenario above) and run it in the thorough tier.
		if (!s.c.Thorough() && s.c.Prop != "C14") || s.h.Backend != BBolt {
			return
		}
		const n = 140000
		docs := make([]map[string]any, n)
		for i := range docs {
			docs[i] = map[string]any{"_id": fixedID(i + 1), "g": int64(i)}
		}
		s.CreateCollection("vast", nil)
		s.Insert("vast", docs[:n/2], false)
		s.Insert("vast", docs[n/2:], false)
		s.CreateIndex("vast", "g")
		s.DropIndex("vast", "g")
		// every value moves, so that an entry that survived the drop no longer matches its document
		s.Bulk(BulkUpdateFunc, &model.Query{Coll: "vast"}, &Upd{Name: "negate", Set: map[string]any{"h": int64(1)}})
		for _, i := range []int{1, 2, 65536, 65537, 131072, 131073, 131074, n} {
			s.UpdateById("vast", fixedID(i), &Upd{Name: "set", Set: map[string]any{"g": int64(-i)}})
		}
		s.CreateIndex("vast", "g")
		s.Count(&model.Query{Coll: "vast", Crit: cmpc(model.OpGtEq, "g", int64(-n))})
		s.FindAll(&model.Query{Coll: "vast", Sorted: true, Sort: []model.SortOpt{{Field: "g", Dir: 1}}, HasLimit: true, Limit: 20})
		s.FindAll(&model.Query{Coll: "vast", Crit: cmpc(model.OpGtEq, "g", int64(131000)), Sorted: true, Sort: []model.SortOpt{{Field: "g", Dir: 1}}, HasLimit: true, Limit: 200})
		s.AuditPhysical("DropIndex and CreateIndex over 140000 documents")
		if s.failed {
			return
		}
		s.DropCollection("vast")
		s.CreateCollection("vast", nil)
		s.Count(&model.Query{Coll: "vast"})
		s.AuditPhysical("DropCollection of 140000 documents")
	}},
	{"panicking-callbacks-leave-no-trace", "C06 C04 C03 C09 C20", func(s *S) {
		// user code that panics in the middle of an operation (the caller recovers): whatever the operation had done
		// so far - documents deleted by an updater returning nil, documents rewritten, index entries moved - is undone
		s.twins(numDocs(9), "x", "g")
		recovered := func(f func() error) func() error {
			return func() (e error) {
				defer func() {
					if r := recover(); r != nil {
						e = fmt.Errorf("user code panicked: %v", r)
					}
				}()
				return f()
			}
		}
		for _, c := range []string{"plain", "idx"} {
			byX := query.NewQuery(c).Sort(query.SortOption{Field: "x", Direction: 1})
			steps := []struct {
				name string
				f    func() error
			}{
				{"UpdateFunc(deletes two documents, rewrites one, then panics)", func() error {
					k := 0
					return s.h.DB.UpdateFunc(byX, func(d *document.Document) *document.Document {
						k++
						switch {
						case k <= 2:
							return nil
						case k == 3:
							n := d.Copy()
							n.Set("x", int64(500))
							n.Set("g", int64(9))
							return n
						}
						panic("user code failed")
					})
				}},
				{"Delete(MatchFunc panics at the fourth document)", func() error {
					k := 0
					return s.h.DB.Delete(query.NewQuery(c).MatchFunc(func(*document.Document) bool {
						k++
						if k == 4 {
							panic("user code failed")
						}
						return true
					}))
				}},
				{"UpdateById(updater panics)", func() error {
					return s.h.DB.UpdateById(c, fixedID(2), func(*document.Document) *document.Document { panic("user code failed") })
				}},
				{"ForEach(consumer panics at the second document)", func() error {
					k := 0
					return s.h.DB.ForEach(byX, func(*document.Document) bool {
						k++
						if k == 2 {
							panic("user code failed")
						}
						return true
					})
				}},
			}
			for _, st := range steps {
				name := st.name + " on " + c
				got, err := s.run(name, false, recovered(st.f))
				if !s.expect(name, []string{EAny}, got, err) {
					return
				}
				if !s.CompareCollection(c, "panic:partial-effect:"+opName(name), name) {
					return
				}
				s.Count(&model.Query{Coll: c})
				s.Count(&model.Query{Coll: c, Crit: cmpc(model.OpGtEq, "x", int64(0))})
			}
		}
		s.AuditPhysical("operations abandoned by a panic in user code")
		if s.failed {
			return
		}
		s.Bulk(BulkDelete, &model.Query{Coll: "idx"}, nil)
		s.Count(&model.Query{Coll: "idx"})
		s.Insert("idx", numDocs(3), false)
		s.Audit("the handle after recovered panics")
	}},
	{"long-string-sort-keys", "C02 C08 C01 C10", func(s *S) {
		// six documents whose indexed strings differ only behind 8192 (and 1024) common bytes, ids in the opposite
		// order of the values: an index that keeps a prefix of the value returns them in id order
		q8, k1 := strings.Repeat("q", 8192), strings.Repeat("k", 1024)
		vals := []string{q8 + "f", q8 + "e", q8 + "d", q8, k1 + "b", k1 + "a", k1, "plain"}
		var docs []map[string]any
		for i, v := range vals {
			docs = append(docs, map[string]any{"_id": fixedID(i + 1), "v": v, "w": int64(i % 3)})
		}
		s.twins(docs, "v", "w")
		for _, dir := range []int{1, -1} {
			s.both(nil, model.SortOpt{Field: "v", Dir: dir})
			s.both(cmpc(model.OpGt, "v", q8), model.SortOpt{Field: "v", Dir: dir})
			s.both(cmpc(model.OpLtEq, "v", q8+"e"), model.SortOpt{Field: "v", Dir: dir})
			s.both(cmpc(model.OpGtEq, "w", int64(0)), model.SortOpt{Field: "w", Dir: dir}, model.SortOpt{Field: "v", Dir: -dir})
			for _, c := range []string{"plain", "idx"} {
				s.FindAll(&model.Query{Coll: c, Sorted: true, Sort: []model.SortOpt{{Field: "v", Dir: dir}}, HasSkip: true, Skip: 1, HasLimit: true, Limit: 3})
			}
		}
		s.both(cmpc(model.OpEq, "v", q8+"e"))
		s.both(model.And(cmpc(model.OpGt, "v", k1), cmpc(model.OpLt, "v", k1+"b")))
		s.AuditPhysical("index on strings with 8192 common bytes")
	}},
	{"builder-arguments-are-copied", "C08 C09", func(s *S) {
		// a query keeps the options it was built with: the caller reusing its own slice afterwards (to build the
		// descending twin, say) does not change a query that already exists
		s.twins(numDocs(6), "x")
		for _, c := range []string{"plain", "idx"} {
			opts := []query.SortOption{{Field: "x", Direction: 1}, {Field: "_id", Direction: 1}}
			asc := query.NewQuery(c).Sort(opts...)
			opts[0].Direction = -1
			opts[1].Field = "g"
			desc := query.NewQuery(c).Sort(opts...).Skip(1).Limit(2)
			opts[0].Field = "nope"
			for _, pair := range []struct {
				q *query.Query
				m *model.Query
			}{
				{asc, &model.Query{Coll: c, Sorted: true, Sort: []model.SortOpt{{Field: "x", Dir: 1}, {Field: "_id", Dir: 1}}}},
				{desc, &model.Query{Coll: c, Sorted: true, Sort: []model.SortOpt{{Field: "x", Dir: -1}, {Field: "g", Dir: 1}}, HasSkip: true, Skip: 1, HasLimit: true, Limit: 2}},
			} {
				name := "FindAll(" + pair.m.String() + ") built before the caller changed its options slice"
				var docs []*document.Document
				got, err := s.run(name, true, func() (e error) { docs, e = s.h.DB.FindAll(pair.q); return })
				if !s.expect(name, []string{OK}, got, err) {
					return
				}
				if p, inc := model.CheckResult(pair.m, s.coll(c).Docs, model.FromDocs(docs)); p != "" && !inc {
					s.viol("query:aliases-caller-slice", "%s: %s", name, p)
					return
				}
			}
		}
	}},
	{"edge-encoded-bounds-in-both-directions", "C08 C02 C01 C17", func(s *S) {
		// every value whose key encoding ends in 0xFF or 0x00 (floats with such a low mantissa byte, times with
		// such nanoseconds, strings) as an inclusive and exclusive bound, ascending and descending, windowed
		var docs []map[string]any
		edge := gen.EdgeValues()
		for i, v := range edge {
			docs = append(docs, map[string]any{"_id": fixedID(i + 1), "v": v, "k": int64(i)})
			if i%3 == 0 {
				docs = append(docs, map[string]any{"_id": fixedID(500 + i), "v": v, "k": int64(-i)}) // a duplicate of the bound
			}
		}
		docs = append(docs, map[string]any{"_id": fixedID(900), "v": float64(0.5274), "k": int64(1)}, map[string]any{"_id": fixedID(901), "v": float64(0.5274), "k": int64(2)}, map[string]any{"_id": fixedID(902), "v": float64(0.25), "k": int64(3)})
		s.twins(docs, "v")
		bounds := append(edge, float64(0.5274))
		for _, b := range bounds {
			for _, op := range []model.OpKind{model.OpLtEq, model.OpEq, model.OpLt, model.OpGtEq, model.OpGt} {
				for _, dir := range []int{-1, 1} {
					for _, c := range []string{"idx", "plain"} {
						q := &model.Query{Coll: c, Crit: cmpc(op, "v", b), Sorted: true, Sort: []model.SortOpt{{Field: "v", Dir: dir}}}
						s.FindAll(q)
						if s.failed {
							return
						}
					}
				}
			}
			s.FindAll(&model.Query{Coll: "idx", Crit: model.And(cmpc(model.OpGtEq, "v", float64(-3)), cmpc(model.OpLtEq, "v", b)), Sorted: true, Sort: []model.SortOpt{{Field: "v", Dir: -1}}, HasSkip: true, Skip: 1, HasLimit: true, Limit: 3})
			s.Count(&model.Query{Coll: "idx", Crit: cmpc(model.OpLtEq, "v", b)})
		}
	}},
	{"isolation-prefix-names-shared-ids", "C13 C06", func(s *S) {
		names := []string{"c", "cc", "c:", "coll:", "", "cx"}
		docs := numDocs(4)
		for _, n := range names {
			s.CreateCollection(n, nil)
			s.Insert(n, docs, false)
			s.CreateIndex(n, "x")
		}
		s.Bulk(BulkDelete, &model.Query{Coll: "c", Crit: cmpc(model.OpGt, "x", int64(2))}, nil)
		s.DropIndex("cc", "x")
		s.DropCollection("c:")
		s.Bulk(BulkUpdateMap, &model.Query{Coll: ""}, &Upd{Name: "set", Set: map[string]any{"x": int64(0)}})
		s.DropCollection("c")
		s.CreateCollection("c", nil)
		s.Audit("isolation")
		s.CreateCollection("c:", nil)
		s.Audit("isolation")
	}},
	{"isolation-dotted-names", "C13 C14 C06", func(s *S) {
		// collection "c" with an index on n.a, collection "c.n" with an index on a, ... : "<collection>.<field>" is ambiguous, the key space must not be
		docs := numDocs(6)
		for _, n := range []string{"c", "c.n", "c.n.a", "x", "x.n"} {
			s.CreateCollection(n, nil)
			s.Insert(n, docs, false)
		}
		s.CreateIndex("c", "n.a")
		s.CreateIndex("c.n", "a")
		s.CreateIndex("c", "n")
		s.CreateIndex("c.n.a", "")
		s.CreateIndex("x", "n.b")
		s.CreateIndex("x.n", "b")
		s.AuditPhysical("indexes on dotted collection / field names")
		asc := func(f string) model.SortOpt { return model.SortOpt{Field: f, Dir: 1} }
		for _, pr := range [][2]string{{"c", "n.a"}, {"c.n", "a"}, {"x", "n.b"}, {"x.n", "b"}} {
			s.FindAll(&model.Query{Coll: pr[0], Sorted: true, Sort: []model.SortOpt{asc(pr[1])}})
			s.FindAll(&model.Query{Coll: pr[0], Crit: cmpc(model.OpGtEq, pr[1], int64(1))})
		}
		s.Bulk(BulkUpdateMap, &model.Query{Coll: "c.n", Crit: cmpc(model.OpLtEq, "x", int64(3))}, &Upd{Name: "set", Set: map[string]any{"a": int64(9)}})
		s.Bulk(BulkDelete, &model.Query{Coll: "c", Crit: cmpc(model.OpGtEq, "n.a", int64(2))}, nil)
		s.DropIndex("c.n", "a")
		s.Audit("drop of c.n/a next to c/n.a")
		s.DropIndex("x", "n.b")
		s.DropCollection("c")
		s.Audit("drop of collection c next to c.n")
	}},
}

// RunDirected runs scenario number Case (if it guards the property being
// checked) on bbolt and on badger.
func RunDirected(c *core.Ctx) {
	sc := scenarios[c.Case%len(scenarios)]
	guards := false
	for _, p := range splitFields(sc.props) {
		if p == c.Prop {
			guards = true
		}
	}
	if !guards {
		return
	}
	for _, backend := range []string{BBolt, BadgerMem, BadgerDisk} {
		h, err := Open(c, backend, "")
		if err != nil {
			c.Violate("open-error", "opening %s failed: %v", backend, err)
			return
		}
		c.Hist = nil
		c.Log("== directed scenario %s on %s", sc.name, backend)
		s := NewS(c, h)
		s.r = gen.New(99)
		sc.run(s)
		h.Destroy()
		if s.failed || c.NumViolations() > 0 {
			return
		}
		c.Cell("directed|%s|%s", sc.name, backendClass(backend))
	}
	c.Sample(map[string]any{"directed_scenario": sc.name})
}

func splitFields(s string) []string {
	var out []string
	cur := ""
	for _, ch := range s {
		if ch == ' ' {
			if cur != "" {
				out = append(out, cur)
			}
			cur = ""
		} else {
			cur += string(ch)
		}
	}
	if cur != "" {
		out = append(out, cur)
	}
	return out
}

func NumScenarios() int { return len(scenarios) }
