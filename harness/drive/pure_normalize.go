package drive

import (
	"fmt"
	"math"
	"reflect"
	"sort"
	"strings"
	"time"

	"github.com/ostafen/clover/v2/document"

	"verif/harness/core"
	"verif/harness/gen"
	"verif/harness/model"
)

// ---- the struct family (C18) ------------------------------------------------

type MyInt int32
type MyStr string
type MyFloat float32
type MyBool bool

type nPlain struct {
	A int
	B string
	C float32
	D bool
	E uint16
}
type nTagged struct {
	A int            `clover:"a"`
	B string         `clover:"b,omitempty"`
	C *int           `clover:",omitempty"`
	D []int          `clover:"d,omitempty"`
	E map[string]int `clover:"e,omitempty"`
	F float64        `clover:"f,omitempty"`
	G bool           `clover:"g,omitempty"`
	H uint8          `clover:",omitempty"`
	I [2]int         `clover:"i,omitempty"`
	J *nInner        `clover:"j,omitempty"`
}
type nWithJSON struct {
	A int    `clover:"ca" json:"ja"`
	B string `json:"jb"`
	C uint8  `clover:"cc"`
	D int64  `clover:"cd" json:"jd,omitempty"`
}
type nInner struct {
	X int8 `clover:"x"`
	Y string
}
type nOuter struct {
	In nInner `clover:"in"`
	P  *nInner
	L  []nInner
	M  map[string]nInner
}

// no renaming tag at this level, a by-value nested struct whose own fields are renamed
type nWrap struct {
	Inner nInner
	Addr  nAddr
	N     int
}
type nAddr struct {
	City string `clover:"city"`
	Zip  uint32 `clover:"zip,omitempty"`
	Geo  nGeo
}
type nGeo struct {
	Lat float64 `clover:"lat"`
	Lon float64
}
type nEmbed struct {
	nInnerE
	Z int
}
type nInnerE struct {
	X int8 `clover:"x"`
	Y string
}
type NInnerExported struct {
	Q int16
	R string `clover:"r"`
}
type nEmbedExported struct {
	NInnerExported
	Z int `clover:"z"`
}
type nEmbedPtr struct {
	*NInnerExported
	Z int
}
type nUnexp struct {
	A int
	b int
	c string
	D string
}
type nTimes struct {
	T  time.Time
	P  *time.Time
	PP **time.Time
	L  []time.Time
	M  map[string]*time.Time
}
type nPtrs struct {
	A *int
	B **int
	C ***uint8
	D *string
	E *float32
	F *bool
	G **string
}
type nArrays struct {
	A [3]int16
	B [2][2]uint32
	C [0]int
	D [][2]string
	E []float32
}
type nIfaces struct {
	A interface{}
	B []interface{}
	C map[string]interface{}
}
type nWidths struct {
	I   int
	I8  int8
	I16 int16
	I32 int32
	I64 int64
	U   uint
	U8  uint8
	U16 uint16
	U32 uint32
	U64 uint64
	F32 float32
	F64 float64
}
type nNamed struct {
	A MyInt
	B MyStr
	C MyFloat
	D map[MyStr]MyInt
	E []MyStr
	F MyBool
	G *MyInt
}
type nDeep struct {
	A *nOuter
	B []*nTagged
	C map[string][]*nInner
	D **nPlain
}
type nMaps struct {
	A map[string]int
	B map[string]*float32
	C map[string][]uint16
	D map[string]map[string]bool
}

// two DIFFERENT struct types that print alike ("drive.record"): anything remembered per type must be keyed by the
// type, not by its name
func localRecordA() reflect.Type {
	type record struct {
		Name   string `clover:"name"`
		Visits int    `clover:"visits"`
	}
	return reflect.TypeOf(record{})
}

func localRecordB() reflect.Type {
	type record struct {
		Ref   string `clover:"ref"`
		Count int    `clover:"count,omitempty"`
		Extra float64
		When  time.Time `clover:"when"`
	}
	return reflect.TypeOf(record{})
}

var structFamily = []reflect.Type{
	localRecordA(), localRecordB(),
	reflect.TypeOf(nPlain{}), reflect.TypeOf(nTagged{}), reflect.TypeOf(nWithJSON{}), reflect.TypeOf(nInner{}), reflect.TypeOf(nOuter{}),
	reflect.TypeOf(nEmbed{}), reflect.TypeOf(nEmbedExported{}), reflect.TypeOf(nEmbedPtr{}), reflect.TypeOf(nUnexp{}), reflect.TypeOf(nTimes{}),
	reflect.TypeOf(nPtrs{}), reflect.TypeOf(nArrays{}), reflect.TypeOf(nIfaces{}), reflect.TypeOf(nWidths{}), reflect.TypeOf(nNamed{}),
	reflect.TypeOf(nDeep{}), reflect.TypeOf(nMaps{}), reflect.TypeOf(nWrap{}), reflect.TypeOf(nAddr{}),
}

// types whose round trip through Unmarshal is specified (no interface fields, no unexported fields)
var roundTripFamily = []reflect.Type{
	localRecordA(), localRecordB(),
	reflect.TypeOf(nPlain{}), reflect.TypeOf(nTagged{}), reflect.TypeOf(nWithJSON{}), reflect.TypeOf(nInner{}), reflect.TypeOf(nOuter{}),
	reflect.TypeOf(nEmbedExported{}), reflect.TypeOf(nEmbedPtr{}), reflect.TypeOf(nTimes{}), reflect.TypeOf(nPtrs{}), reflect.TypeOf(nArrays{}),
	reflect.TypeOf(nWidths{}), reflect.TypeOf(nNamed{}), reflect.TypeOf(nDeep{}), reflect.TypeOf(nMaps{}), reflect.TypeOf(nWrap{}), reflect.TypeOf(nAddr{}),
}

var otherTypes = []reflect.Type{
	reflect.TypeOf(int(0)), reflect.TypeOf(int8(0)), reflect.TypeOf(int16(0)), reflect.TypeOf(int32(0)), reflect.TypeOf(int64(0)),
	reflect.TypeOf(uint(0)), reflect.TypeOf(uint8(0)), reflect.TypeOf(uint16(0)), reflect.TypeOf(uint32(0)), reflect.TypeOf(uint64(0)),
	reflect.TypeOf(float32(0)), reflect.TypeOf(float64(0)), reflect.TypeOf(""), reflect.TypeOf(true), reflect.TypeOf(time.Time{}),
	reflect.TypeOf((*int)(nil)), reflect.TypeOf((**int16)(nil)), reflect.TypeOf((***uint32)(nil)), reflect.TypeOf((*string)(nil)), reflect.TypeOf((*time.Time)(nil)), reflect.TypeOf((**time.Time)(nil)),
	reflect.TypeOf([]int{}), reflect.TypeOf([]*int8{}), reflect.TypeOf([3]uint16{}), reflect.TypeOf([][]float32{}), reflect.TypeOf([]string{}), reflect.TypeOf([]interface{}{}),
	reflect.TypeOf(map[string]int{}), reflect.TypeOf(map[string]interface{}{}), reflect.TypeOf(map[MyStr][]int{}), reflect.TypeOf(map[string]*nInner{}), reflect.TypeOf([]nTagged{}),
	reflect.TypeOf(MyInt(0)), reflect.TypeOf(MyStr("")), reflect.TypeOf((*MyFloat)(nil)), reflect.TypeOf([]time.Time{}), reflect.TypeOf(map[string]time.Time{}),
	reflect.TypeOf((*nTimes)(nil)), reflect.TypeOf((**nPlain)(nil)),
}

// unsupported values: must leave the document unchanged
func unsupportedValues() []any {
	ch := make(chan int)
	return []any{
		ch, func() {}, complex(1, 2), complex64(1), map[int]string{1: "a"}, map[bool]int{true: 1},
		[]chan int{ch}, map[string]func(){"f": func() {}}, []any{int(1), ch}, map[string]any{"a": complex(1, 1)},
		struct{ C chan int }{ch}, &ch, []map[int]int{{1: 1}}, struct{ F func() }{func() {}},
		[]any{map[string]any{"deep": []any{func() {}}}},
	}
}

// ---- random filling ----------------------------------------------------------

type filler struct {
	r        *gen.Rng
	noNil    bool // round trip: avoid nil/empty ambiguities
	finite   bool
	maxDepth int
}

var dynValues = []func(r *gen.Rng) any{
	func(r *gen.Rng) any { return int(r.Range(-5, 5)) },
	func(r *gen.Rng) any { return uint16(r.Intn(9)) },
	func(r *gen.Rng) any { return float32(r.Range(-4, 4)) / 2 },
	func(r *gen.Rng) any { return "s" + fmt.Sprint(r.Intn(5)) },
	func(r *gen.Rng) any { return r.Bool() },
	func(r *gen.Rng) any { return nil },
	func(r *gen.Rng) any { x := int8(r.Range(-5, 5)); return &x },
	func(r *gen.Rng) any { return []int32{1, int32(r.Intn(5))} },
	func(r *gen.Rng) any { return map[string]any{"k": uint8(r.Intn(5)), "z": []any{int16(1), "x"}} },
	func(r *gen.Rng) any { return nInner{X: int8(r.Intn(5)), Y: "y"} },
	func(r *gen.Rng) any { return time.Unix(int64(r.Intn(1e9)), 0).UTC() },
	func(r *gen.Rng) any { t := time.Unix(int64(r.Intn(1e9)), 5).UTC(); return &t },
}

func (f *filler) fill(v reflect.Value, depth int) {
	r := f.r
	switch v.Kind() {
	case reflect.Int, reflect.Int8, reflect.Int16, reflect.Int32, reflect.Int64:
		var n int64
		switch r.Intn(4) {
		case 0:
			n = 0
		case 1:
			n = int64(r.Range(-100, 100))
		case 2:
			n = int64(r.U64())
		default:
			n = int64(r.Range(-3, 3))
		}
		// truncate to the width
		v.SetInt(n)
		if v.Int() != n {
			v.SetInt(n % 100)
		}
	case reflect.Uint, reflect.Uint8, reflect.Uint16, reflect.Uint32, reflect.Uint64:
		var n uint64
		switch r.Intn(3) {
		case 0:
			n = 0
		case 1:
			n = uint64(r.Intn(200))
		default:
			n = r.U64()
		}
		v.SetUint(n)
		if v.Uint() != n {
			v.SetUint(n % 200)
		}
	case reflect.Float32, reflect.Float64:
		if v.Kind() == reflect.Float32 && r.P(25) {
			// values whose float32 -> float64 widening is exact but whose shortest decimal rendering is not
			v.SetFloat(float64(gen.Pick(r, []float32{1 << 40, 1<<30 + 128, 33554436, 1.0 / 3.0, 0.1, 16777215, 9.536743e-07})))
			return
		}
		x := float64(r.Range(-64, 64)) / 8
		if r.P(15) {
			x = 0
		}
		if !f.finite && r.P(5) {
			x = math.Inf(1)
		}
		v.SetFloat(x)
	case reflect.String:
		v.SetString(gen.Pick(r, []string{"", "a", "héllo", "x y", "\xff"}))
		if f.noNil && !validUTF8ish(v.String()) {
			v.SetString("a")
		}
	case reflect.Bool:
		v.SetBool(r.Bool())
	case reflect.Ptr:
		if depth <= 0 || (!f.noNil && r.P(25)) || (f.noNil && r.P(20)) {
			return // nil
		}
		p := reflect.New(v.Type().Elem())
		f.fill(p.Elem(), depth-1)
		v.Set(p)
	case reflect.Interface:
		dv := gen.Pick(r, dynValues)(r)
		if dv != nil {
			v.Set(reflect.ValueOf(dv))
		}
	case reflect.Struct:
		if v.Type() == reflect.TypeOf(time.Time{}) {
			t := time.Unix(int64(r.Intn(2_000_000_000)), int64(r.Intn(1_000_000_000)))
			if r.Bool() {
				t = t.UTC()
			} else {
				t = t.In(time.FixedZone("", r.Range(-12, 12)*3600))
			}
			v.Set(reflect.ValueOf(t))
			return
		}
		for i := 0; i < v.NumField(); i++ {
			fv := v.Field(i)
			if !fv.CanSet() {
				continue
			}
			sf := v.Type().Field(i)
			if sf.Anonymous && fv.Kind() == reflect.Ptr {
				// embedded pointers are always non-nil (a nil one has no documented meaning)
				p := reflect.New(fv.Type().Elem())
				f.fill(p.Elem(), depth-1)
				fv.Set(p)
				continue
			}
			f.fill(fv, depth-1)
		}
	case reflect.Slice:
		if !f.noNil && r.P(15) {
			return // nil slice
		}
		n := r.Intn(4)
		if depth <= 0 {
			n = 0
		}
		s := reflect.MakeSlice(v.Type(), n, n)
		for i := 0; i < n; i++ {
			f.fill(s.Index(i), depth-1)
		}
		v.Set(s)
	case reflect.Array:
		for i := 0; i < v.Len(); i++ {
			f.fill(v.Index(i), depth-1)
		}
	case reflect.Map:
		if !f.noNil && r.P(15) {
			return
		}
		n := r.Intn(3)
		if depth <= 0 {
			n = 0
		}
		m := reflect.MakeMap(v.Type())
		for i := 0; i < n; i++ {
			k := reflect.New(v.Type().Key()).Elem()
			k.SetString(gen.Pick(r, []string{"k1", "k2", "é", ""}))
			e := reflect.New(v.Type().Elem()).Elem()
			f.fill(e, depth-1)
			m.SetMapIndex(k, e)
		}
		v.Set(m)
	}
}

func validUTF8ish(s string) bool { return !strings.Contains(s, "\xff") }

// ---- the reference normaliser -----------------------------------------------

var timeType = reflect.TypeOf(time.Time{})

func cloverTag(sf reflect.StructField) (string, bool) {
	parts := strings.Split(sf.Tag.Get("clover"), ",")
	return parts[0], len(parts) > 1 && parts[1] == "omitempty"
}

func emptyValue(v reflect.Value) bool {
	switch v.Kind() {
	case reflect.Array, reflect.Map, reflect.Slice, reflect.String:
		return v.Len() == 0
	case reflect.Bool:
		return !v.Bool()
	case reflect.Int, reflect.Int8, reflect.Int16, reflect.Int32, reflect.Int64:
		return v.Int() == 0
	case reflect.Uint, reflect.Uint8, reflect.Uint16, reflect.Uint32, reflect.Uint64:
		return v.Uint() == 0
	case reflect.Float32, reflect.Float64:
		return v.Float() == 0
	case reflect.Interface, reflect.Ptr:
		return v.IsNil()
	}
	return false
}

// refNorm is the documented normal form; ok=false means "unsupported".
func refNorm(v reflect.Value) (any, bool) {
	if !v.IsValid() {
		return nil, true
	}
	switch v.Kind() {
	case reflect.Ptr, reflect.Interface:
		if v.IsNil() {
			return nil, true
		}
		return refNorm(v.Elem())
	case reflect.Int, reflect.Int8, reflect.Int16, reflect.Int32, reflect.Int64:
		return v.Int(), true
	case reflect.Uint, reflect.Uint8, reflect.Uint16, reflect.Uint32, reflect.Uint64:
		return v.Uint(), true
	case reflect.Float32, reflect.Float64:
		return v.Float(), true
	case reflect.String:
		return v.String(), true
	case reflect.Bool:
		return v.Bool(), true
	case reflect.Struct:
		if v.Type() == timeType {
			return v.Interface().(time.Time), true
		}
		m := map[string]any{}
		for i := 0; i < v.NumField(); i++ {
			sf := v.Type().Field(i)
			if sf.PkgPath != "" {
				continue
			}
			name, omit := cloverTag(sf)
			if name == "" {
				name = sf.Name
			}
			fv := v.Field(i)
			if omit && emptyValue(fv) {
				continue
			}
			nv, ok := refNorm(fv)
			if !ok {
				return nil, false
			}
			if sf.Anonymous {
				if sub, isMap := nv.(map[string]any); isMap {
					for k, e := range sub {
						m[k] = e
					}
					continue
				}
			}
			m[name] = nv
		}
		return m, true
	case reflect.Map:
		if v.Type().Key().Kind() != reflect.String {
			return nil, false
		}
		m := map[string]any{}
		for _, k := range v.MapKeys() {
			nv, ok := refNorm(v.MapIndex(k))
			if !ok {
				return nil, false
			}
			m[k.String()] = nv
		}
		return m, true
	case reflect.Slice, reflect.Array:
		s := make([]any, 0, v.Len())
		for i := 0; i < v.Len(); i++ {
			nv, ok := refNorm(v.Index(i))
			if !ok {
				return nil, false
			}
			s = append(s, nv)
		}
		return s, true
	}
	return nil, false
}

// canonicalProblem reports the first non-canonical dynamic type inside a value.
func canonicalProblem(v any, path string) string {
	switch x := v.(type) {
	case nil, int64, uint64, float64, string, bool, time.Time:
		return ""
	case []any:
		for i, e := range x {
			if p := canonicalProblem(e, fmt.Sprintf("%s[%d]", path, i)); p != "" {
				return p
			}
		}
		return ""
	case map[string]any:
		for k, e := range x {
			if p := canonicalProblem(e, path+"."+k); p != "" {
				return p
			}
		}
		return ""
	}
	return fmt.Sprintf("%s holds non-canonical type %T", path, v)
}

func leafPaths(m map[string]any, prefix string, out *[]string) {
	for k, v := range m {
		if sub, ok := v.(map[string]any); ok {
			leafPaths(sub, prefix+k+".", out)
			continue
		}
		*out = append(*out, prefix+k)
	}
}

func kindDesc(t reflect.Type) string {
	depth := 0
	for t.Kind() == reflect.Ptr {
		depth++
		t = t.Elem()
	}
	name := t.Kind().String()
	if t.Kind() == reflect.Struct {
		name = t.Name()
	} else if t.Kind() == reflect.Slice || t.Kind() == reflect.Array || t.Kind() == reflect.Map {
		name = t.Kind().String() + "<" + t.Elem().Kind().String() + ">"
	}
	return fmt.Sprintf("%s|ptr%d", name, depth)
}

// semanticEqual compares two Go values of the same type: times by instant and
// offset, nil == empty for slices and maps, unexported fields ignored.
func semanticEqual(a, b reflect.Value, path string) string {
	if a.Kind() != b.Kind() {
		return fmt.Sprintf("%s: kinds differ", path)
	}
	switch a.Kind() {
	case reflect.Ptr, reflect.Interface:
		// a chain of pointers ending in nil denotes nil, whatever its length
		for (a.Kind() == reflect.Ptr || a.Kind() == reflect.Interface) && !a.IsNil() {
			a = a.Elem()
		}
		for (b.Kind() == reflect.Ptr || b.Kind() == reflect.Interface) && !b.IsNil() {
			b = b.Elem()
		}
		an := (a.Kind() == reflect.Ptr || a.Kind() == reflect.Interface)
		bn := (b.Kind() == reflect.Ptr || b.Kind() == reflect.Interface)
		if an || bn {
			if an != bn {
				return fmt.Sprintf("%s: nil vs non-nil", path)
			}
			return ""
		}
		return semanticEqual(a, b, path)
	case reflect.Struct:
		if a.Type() == timeType {
			ta, tb := a.Interface().(time.Time), b.Interface().(time.Time)
			_, oa := ta.Zone()
			_, ob := tb.Zone()
			if !ta.Equal(tb) || oa != ob {
				return fmt.Sprintf("%s: time %v vs %v", path, ta, tb)
			}
			return ""
		}
		for i := 0; i < a.NumField(); i++ {
			if a.Type().Field(i).PkgPath != "" && !a.Type().Field(i).Anonymous {
				continue
			}
			if d := semanticEqual(a.Field(i), b.Field(i), path+"."+a.Type().Field(i).Name); d != "" {
				return d
			}
		}
		return ""
	case reflect.Slice, reflect.Array:
		if a.Len() != b.Len() {
			return fmt.Sprintf("%s: length %d vs %d", path, a.Len(), b.Len())
		}
		for i := 0; i < a.Len(); i++ {
			if d := semanticEqual(a.Index(i), b.Index(i), fmt.Sprintf("%s[%d]", path, i)); d != "" {
				return d
			}
		}
		return ""
	case reflect.Map:
		if a.Len() != b.Len() {
			return fmt.Sprintf("%s: map size %d vs %d", path, a.Len(), b.Len())
		}
		for _, k := range a.MapKeys() {
			bv := b.MapIndex(k)
			if !bv.IsValid() {
				return fmt.Sprintf("%s[%v]: missing", path, k)
			}
			if d := semanticEqual(a.MapIndex(k), bv, fmt.Sprintf("%s[%v]", path, k)); d != "" {
				return d
			}
		}
		return ""
	}
	if !reflect.DeepEqual(a.Interface(), b.Interface()) {
		return fmt.Sprintf("%s: %v vs %v", path, a.Interface(), b.Interface())
	}
	return ""
}

// RunNormalize decides C18 on a batch of Go values.
func RunNormalize(c *core.Ctx) {
	r := c.R
	f := &filler{r: r}
	types := append(append([]reflect.Type(nil), structFamily...), otherTypes...)
	for k := 0; k < 60; k++ {
		t := gen.Pick(r, types)
		pv := reflect.New(t)
		f.fill(pv.Elem(), 4)
		val := pv.Elem().Interface()
		// occasionally hand over a pointer to the value
		if r.P(30) {
			val = pv.Interface()
		}
		want, ok := refNorm(reflect.ValueOf(val))
		if !ok {
			continue
		}
		desc := fmt.Sprintf("%T", val)
		// Document.Set
		var got any
		var has bool
		doc := document.NewDocument()
		err := Do(func() error {
			doc.Set("f", val)
			got = doc.Get("f")
			has = doc.Has("f")
			return nil
		})
		if pe, isP := IsPanic(err); isP {
			c.Violate(PanicSig(pe), "Set(%s) panicked: %v\n%s", desc, pe.Val, trim(pe.Stack, 20))
			return
		}
		c.Eval(1)
		if !has {
			c.Violate("normalize:rejected:"+kindDesc(reflect.TypeOf(val)), "Set(\"f\", %s = %+v) left the field unset although the value is supported", desc, val)
			return
		}
		got = model.DeepCopy(got)
		if p := canonicalProblem(got, "f"); p != "" {
			c.Violate("normalize:non-canonical:"+kindDesc(reflect.TypeOf(val)), "Set(\"f\", %s): %s\n  value %+v\n  normal form %s", desc, p, val, model.Render(got))
			return
		}
		if d := model.StrictDiff(want, got); d != "" {
			c.Violate("normalize:value:"+kindDesc(reflect.TypeOf(val)), "Set(\"f\", %s): normal form differs from the documented one at %s\n  value %+v\n  got  %s\n  want %s", desc, d, val, model.Render(got), model.Render(want))
			return
		}
		// determinism and idempotence
		doc2 := document.NewDocument()
		doc2.Set("f", val)
		if d := model.StrictDiff(got, model.DeepCopy(doc2.Get("f"))); d != "" {
			c.Violate("normalize:nondeterministic", "normalising %s twice gave different results at %s", desc, d)
			return
		}
		doc3 := document.NewDocument()
		doc3.Set("g", model.DeepCopy(got))
		if d := model.StrictDiff(got, model.DeepCopy(doc3.Get("g"))); d != "" {
			c.Violate("normalize:not-idempotent", "re-normalising the normal form of %s changed it at %s", desc, d)
			return
		}
		// NewDocumentOf for struct / map values
		if m, isMap := want.(map[string]any); isMap {
			nd := document.NewDocumentOf(val)
			if nd == nil {
				c.Violate("normalize:newdocumentof-nil", "NewDocumentOf(%s) returned nil", desc)
				return
			}
			if d := model.StrictDiff(m, model.FromDoc(nd)); d != "" {
				c.Violate("normalize:newdocumentof", "NewDocumentOf(%s) differs from the documented normal form at %s\n  got  %s\n  want %s", desc, d, model.Render(model.FromDoc(nd)), model.Render(m))
				return
			}
		}
		tags := "notag"
		if reflect.TypeOf(val).Kind() == reflect.Struct || (reflect.TypeOf(val).Kind() == reflect.Ptr && reflect.TypeOf(val).Elem().Kind() == reflect.Struct) {
			tags = "struct"
		}
		c.Cell("norm|%s|%s|%s", kindDesc(reflect.TypeOf(val)), tags, typeClass(want))
	}
	// unsupported values leave the document unchanged
	for _, u := range unsupportedValues() {
		doc := document.NewDocument()
		doc.Set("keep", int64(1))
		doc.Set("n.a", "x")
		before := model.FromDoc(doc)
		for _, p := range []string{"u", "keep", "n.a", "n.b.c"} {
			err := Do(func() error { doc.Set(p, u); return nil })
			if pe, isP := IsPanic(err); isP {
				c.Violate(PanicSig(pe), "Set(%T) panicked: %v", u, pe.Val)
				return
			}
			c.Eval(1)
			if d := model.StrictDiff(before, model.FromDoc(doc)); d != "" {
				c.Violate("normalize:unsupported-changed-doc", "Set(%q, %T) is unsupported but changed the document at %s", p, u, d)
				return
			}
		}
		if document.NewDocumentOf(u) != nil {
			c.Violate("normalize:unsupported-newdocumentof", "NewDocumentOf(%T) returned a document", u)
			return
		}
		c.Cell("unsupported|%T", u)
	}
	// path laws
	for k := 0; k < 25; k++ {
		doc := document.NewDocument()
		ref := map[string]any{}
		paths := []string{"a", "b", "a.b", "a.b.c", "n.x", "n.y.z", "é", "k:1", "a b", "q.r.s.t"}
		if k%3 == 0 {
			// empty field names are names like any other: "a." is the field "" of the object a
			paths = append(paths, "a.", "n.", ".a", "a..b", "a.b.", "")
		}
		for i := 0; i < 6; i++ {
			p := gen.Pick(r, paths)
			v := r.Nested(2)
			doc.Set(p, model.DeepCopy(v))
			model.SetPath(ref, p, model.DeepCopy(v))
			c.Eval(1)
			if !doc.Has(p) {
				c.Violate("path:has-after-set", "after Set(%q) Has(%q) is false", p, p)
				return
			}
			if d := model.StrictDiff(v, model.DeepCopy(doc.Get(p))); d != "" {
				c.Violate("path:get-after-set", "after Set(%q, %s) Get returns something else at %s", p, model.Render(v), d)
				return
			}
			if d := model.StrictDiff(ref, model.FromDoc(doc)); d != "" {
				c.Violate("path:other-paths-changed", "after Set(%q, %s) the document differs from the expected one at %s\n  got  %s\n  want %s", p, model.Render(v), d, model.Render(model.FromDoc(doc)), model.Render(ref))
				return
			}
			parts := strings.Split(p, ".")
			for j := 1; j < len(parts); j++ {
				pre := strings.Join(parts[:j], ".")
				if _, isMap := doc.Get(pre).(map[string]interface{}); !isMap || !doc.Has(pre) {
					c.Violate("path:prefix-not-map", "after Set(%q) the prefix %q is not an object", p, pre)
					return
				}
			}
		}
		// a copy is a document of its own: Set on the copy (or a write into the map ToMap/AsMap returns) changes only the
		// copy, and Set on the original changes only the original - also through sub-objects that were empty when the copy was taken
		{
			doc.Set("emp", map[string]interface{}{})
			model.SetPath(ref, "emp", map[string]any{})
			doc.Set("n.emp", map[string]interface{}{})
			model.SetPath(ref, "n.emp", map[string]any{})
			cp := doc.Copy()
			refCp := model.DeepCopy(ref).(map[string]any)
			tm, am := doc.ToMap(), doc.AsMap()
			for _, p := range []string{"emp.tag", "n.emp.x.y", gen.Pick(r, paths)} {
				v := r.Nested(1)
				cp.Set(p, model.DeepCopy(v))
				model.SetPath(refCp, p, model.DeepCopy(v))
			}
			for _, m := range []map[string]interface{}{tm, am} {
				if sub, ok := m["emp"].(map[string]interface{}); ok {
					sub["via-map"] = int64(1)
				}
				if n, ok := m["n"].(map[string]interface{}); ok {
					n["via-map"] = int64(2)
					if sub, ok := n["emp"].(map[string]interface{}); ok {
						sub["via-map"] = int64(3)
					}
				}
				m["via-map"] = int64(4)
			}
			c.Eval(1)
			if d := model.StrictDiff(ref, model.FromDoc(doc)); d != "" {
				c.Violate("path:copy-aliases-original", "Set on doc.Copy() / a write into the map returned by ToMap or AsMap changed the original document at %s\n  got  %s\n  want %s", d, model.Render(model.FromDoc(doc)), model.Render(ref))
				return
			}
			for _, p := range []string{"emp.orig", "n.emp.orig", gen.Pick(r, paths)} {
				v := r.Nested(1)
				doc.Set(p, model.DeepCopy(v))
				model.SetPath(ref, p, model.DeepCopy(v))
			}
			if d := model.StrictDiff(refCp, model.FromDoc(cp)); d != "" {
				c.Violate("path:copy-aliases-original", "Set on the original changed its earlier Copy() at %s\n  got  %s\n  want %s", d, model.Render(model.FromDoc(cp)), model.Render(refCp))
				return
			}
			if d := model.StrictDiff(ref, model.FromDoc(doc)); d != "" {
				c.Violate("path:other-paths-changed", "after Set on a copied document it differs from the expected one at %s\n  got  %s\n  want %s", d, model.Render(model.FromDoc(doc)), model.Render(ref))
				return
			}
			c.Cell("paths|copy-independent")
		}
		for _, p := range append(paths, "zz", "a.zz", "a.b.c.d") {
			wv, wh := model.Lookup(ref, p)
			if doc.Has(p) != wh {
				c.Violate("path:has", "Has(%q) = %v, want %v on %s", p, doc.Has(p), wh, model.Render(ref))
				return
			}
			if d := model.StrictDiff(wv, model.DeepCopy(doc.Get(p))); d != "" {
				c.Violate("path:get", "Get(%q) differs at %s on %s", p, d, model.Render(ref))
				return
			}
		}
		var want []string
		leafPaths(ref, "", &want)
		sort.Strings(want)
		got := doc.Fields(true)
		if strings.Join(got, "\x01") != strings.Join(want, "\x01") {
			c.Violate("path:fields", "Fields(true) = %q, want the leaf paths %q of %s", got, want, model.Render(ref))
			return
		}
		top := model.SortedKeys(ref)
		if g := doc.Fields(false); strings.Join(g, "\x01") != strings.Join(top, "\x01") {
			c.Violate("path:fields", "Fields(false) = %q, want %q", g, top)
			return
		}
		c.Cell("paths|%d-leaves", min(len(want), 6))
	}
	// struct -> document -> struct
	rf := &filler{r: r, noNil: true, finite: true}
	for k := 0; k < 25; k++ {
		t := gen.Pick(r, roundTripFamily)
		pv := reflect.New(t)
		rf.fill(pv.Elem(), 4)
		doc := document.NewDocumentOf(pv.Interface())
		if doc == nil {
			c.Violate("roundtrip:newdocumentof-nil", "NewDocumentOf(*%s) returned nil", t.Name())
			return
		}
		out := reflect.New(t)
		var uerr error
		beforeUnmarshal := model.FromDoc(doc)
		err := Do(func() error { uerr = doc.Unmarshal(out.Interface()); return nil })
		if d := model.StrictDiff(beforeUnmarshal, model.FromDoc(doc)); d != "" {
			c.Violate("roundtrip:unmarshal-changed-document:"+t.Name(), "Unmarshal into %s modified the document it was called on at %s\n  before %s\n  after  %s", t.Name(), d, model.Render(beforeUnmarshal), model.Render(model.FromDoc(doc)))
			return
		}
		if pe, isP := IsPanic(err); isP {
			c.Violate(PanicSig(pe), "Unmarshal into %s panicked: %v\n%s", t.Name(), pe.Val, trim(pe.Stack, 20))
			return
		}
		c.Eval(1)
		if uerr != nil {
			c.Violate("roundtrip:unmarshal-error:"+t.Name(), "NewDocumentOf(%s) then Unmarshal failed: %v\n  value %+v\n  document %s", t.Name(), uerr, pv.Elem().Interface(), model.Render(model.FromDoc(doc)))
			return
		}
		if d := semanticEqual(pv.Elem(), out.Elem(), t.Name()); d != "" {
			c.Violate("roundtrip:changed:"+t.Name(), "struct %s changed on the way through a document at %s\n  before %+v\n  after  %+v\n  document %s", t.Name(), d, pv.Elem().Interface(), out.Elem().Interface(), model.Render(model.FromDoc(doc)))
			return
		}
		c.Cell("roundtrip|%s", t.Name())
	}
	c.Sample(map[string]any{"struct_family": len(structFamily), "other_types": len(otherTypes), "unsupported_values": len(unsupportedValues())})
}
