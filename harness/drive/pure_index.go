package drive

import (
	"errors"
	"fmt"
	"sort"
	"strings"
	"time"

	"github.com/ostafen/clover/v2/index"
	"github.com/ostafen/clover/v2/store"

	"verif/harness/core"
	"verif/harness/gen"
	"verif/harness/model"
	"verif/harness/mon"
)

type idxEntry struct {
	id string
	v  any
}

// rangeContains is the documented meaning of a Range: a nil bound that is not
// included is an open end; an included nil bound is the nil value.
func rangeContains(e *model.Eval, r *index.Range, v any) bool {
	if !(r.Start == nil && !r.StartIncluded) {
		c := e.Compare(v, r.Start)
		if c < 0 || (c == 0 && !r.StartIncluded) {
			return false
		}
	}
	if !(r.End == nil && !r.EndIncluded) {
		c := e.Compare(v, r.End)
		if c > 0 || (c == 0 && !r.EndIncluded) {
			return false
		}
	}
	return true
}

func rangeStr(r *index.Range) string {
	lb, rb := "(", ")"
	if r.StartIncluded {
		lb = "["
	}
	if r.EndIncluded {
		rb = "]"
	}
	return fmt.Sprintf("%s%s, %s%s", lb, model.Render(r.Start), model.Render(r.End), rb)
}

// inDomain: at least one non-nil bound, or the nil-only range.
func rangeInDomain(r *index.Range) bool {
	if r.Start != nil || r.End != nil {
		return true
	}
	return r.StartIncluded && r.EndIncluded
}

var errForeign = errors.New("verif: consumer error")

// RunIndex decides C17 on one index content.
func RunIndex(c *core.Ctx) {
	r := c.R
	backend := gen.Pick(r, []string{BBolt, BadgerMem, "mem", BBolt, BadgerMem, BadgerDisk})
	c.Backend = backend
	var st store.Store
	var dir string
	if backend == "mem" {
		st = mon.NewMemStore()
	} else {
		dirSeq++
		dir = fmt.Sprintf("%s/idx%d", c.Scratch, dirSeq)
		var err error
		st, err = OpenInner(backend, dir)
		if err != nil {
			c.Violate("open-error", "open %s: %v", backend, err)
			return
		}
	}
	defer func() {
		st.Close()
		if dir != "" {
			removeAll(dir)
		}
	}()
	if r.Bool() {
		// behind the store monitor: keys and values handed out by a cursor are poisoned as soon as it moves
		// (badger's validity contract), whatever the backend
		st = mon.Wrap(st)
	}

	// index content: duplicates, nil, mixed types
	prof := gen.Pick(r, []gen.Profile{{Kind: gen.PSmallInt, Nil: 10}, {Kind: gen.PMixedNum, Nil: 10}, {Kind: gen.PString, Nil: 10}, {Kind: gen.PMixed}, {Kind: gen.PTime, Nil: 10}, {Kind: gen.PMixed, Nil: 20}, {Kind: gen.PArray}, {Kind: gen.PEdge}, {Kind: gen.PEdge, Nil: 10}, {Kind: gen.PLongStr, Nil: 10}})
	n := gen.Pick(r, []int{0, 1, 3, 8, 20, 40, 8, 20, 260, 700})
	entries := make([]idxEntry, n)
	for i := range entries {
		entries[i] = idxEntry{id: r.UUIDMaybeUpper(), v: r.Value(prof)}
	}
	if prof.Kind == gen.PLongStr {
		for i := range entries {
			if r.Bool() {
				entries[i].v = gen.Pick(r, gen.LongStringsAll)
			}
		}
	}
	if n >= 260 {
		// long runs of duplicates (52, or 140: more than badger's prefetch window of 100), of values with equally long encodings
		vals := []any{int64(2), int64(3), int64(5), "aa", "ab"}
		for i := range entries {
			entries[i].v = vals[(i*len(vals))/n]
		}
	}
	field := gen.Pick(r, []string{"f", "x", "n.a", "é"})
	// the length of the key prefix matters to code that builds both bound keys from one buffer
	coll := "c" + "ollection-name-of-some-length-0123456789"[:r.Intn(41)]
	if r.Bool() {
		field += "_" + "field-name-of-some-length-0123456789"[:r.Intn(30)]
	}

	tx, err := st.Begin(true)
	if err != nil {
		c.Violate("index:begin", "begin: %v", err)
		return
	}
	idx := index.CreateIndex(coll, field, index.SingleField, tx).(index.RangeIndex)
	// neighbours that must never leak into the scans: a field name extending ours, another collection, document keys
	sib := index.CreateIndex(coll, field+"y", index.SingleField, tx)
	sib2 := index.CreateIndex(coll, field+".y", index.SingleField, tx)
	other := index.CreateIndex(coll+"c", field, index.SingleField, tx)
	for i := 0; i < 5; i++ {
		sib.Add(r.UUID(), r.Value(prof), -1)
		sib2.Add(r.UUID(), r.Value(prof), -1)
		other.Add(r.UUID(), r.Value(prof), -1)
	}
	tx.Set([]byte("c:"+coll+";d:"+r.UUID()), []byte("doc"))
	tx.Set([]byte("coll:"+coll), []byte("{}"))
	for _, e := range entries {
		if err := idx.Add(e.id, model.DeepCopy(e.v), time.Duration(-1)); err != nil {
			c.Violate("index:add-error", "Add(%s): %v", model.Render(e.v), err)
			tx.Rollback()
			return
		}
	}
	// some entries are added then removed again
	for i := 0; i < 3; i++ {
		id, v := r.UUID(), r.Value(prof)
		idx.Add(id, model.DeepCopy(v), -1)
		if err := idx.Remove(id, model.DeepCopy(v)); err != nil {
			c.Violate("index:remove-error", "Remove: %v", err)
			tx.Rollback()
			return
		}
	}

	// bounds: every stored value, neighbours and type boundaries
	bounds := []any{nil}
	for _, e := range entries {
		bounds = append(bounds, e.v)
	}
	bounds = append(bounds, int64(-100), int64(0), float64(2.5), int64(7), int64(100), "", "a", "ab", "a\x00", "zzz", false, true, []any{}, map[string]any{}, time.Unix(1_600_000_000, 0).UTC(), time.Unix(1_599_999_990, 0).UTC(), time.Unix(1_700_000_000, 0).UTC())

	byID := map[string]any{}
	for _, e := range entries {
		byID[e.id] = e.v
	}

	phase := "in-writing-tx"
	check := func(idx index.RangeIndex, sibling index.Index) bool {
		// full iteration
		for _, rev := range []bool{false, true} {
			var got []string
			if err := idx.Iterate(rev, func(id string) error { got = append(got, id); return nil }); err != nil {
				c.Violate("index:iterate-error", "Iterate: %v", err)
				return false
			}
			if !checkScan(c, byID, entries, nil, rev, got, "Iterate", phase, backend) {
				return false
			}
		}
		// deterministic part: intersections of ranges that share a bound (both flags on both sides)
		for _, b := range bounds {
			if b == nil {
				continue
			}
			lo := gen.Pick(r, bounds)
			for flags := 0; flags < 16; flags++ {
				r1 := &index.Range{Start: nil, End: model.DeepCopy(b), StartIncluded: false, EndIncluded: flags&1 != 0}
				r2 := &index.Range{Start: model.DeepCopy(lo), End: model.DeepCopy(b), StartIncluded: flags&2 != 0, EndIncluded: flags&4 != 0}
				if flags&8 != 0 {
					r1, r2 = r2, r1
				}
				if !rangeInDomain(r1) || !rangeInDomain(r2) {
					continue
				}
				for _, pair := range [][2]*index.Range{{r1, r2}, {&index.Range{Start: r1.End, End: nil, StartIncluded: r1.EndIncluded}, &index.Range{Start: r2.End, End: model.DeepCopy(gen.Pick(r, bounds)), StartIncluded: r2.EndIncluded, EndIncluded: flags&2 != 0}}} {
					a, bb := pair[0], pair[1]
					if !rangeInDomain(a) || !rangeInDomain(bb) {
						continue
					}
					ac, bc := *a, *bb // the oracle works on copies taken before the call
					in := a.Intersect(bb)
					if rangeStr(a) != rangeStr(&ac) || a.StartIncluded != ac.StartIncluded || a.EndIncluded != ac.EndIncluded || rangeStr(bb) != rangeStr(&bc) {
						c.Violate("range:intersect-mutates-operand", "Intersect changed one of its operands: %s ∩ %s left them as %s and %s (a range used twice then excludes common values)", rangeStr(&ac), rangeStr(&bc), rangeStr(a), rangeStr(bb))
						return false
					}
					e := &model.Eval{}
					for _, v := range bounds {
						if rangeContains(e, &ac, v) && rangeContains(e, &bc, v) && !e.Unspec {
							if !in.IsEmpty() {
								if !rangeContains(e, in, v) {
									c.Violate("range:intersect-excludes", "%s ∩ %s = %s excludes %s which both operands contain", rangeStr(a), rangeStr(bb), rangeStr(in), model.Render(v))
									return false
								}
							} else {
								c.Violate("range:intersect-excludes", "%s ∩ %s = %s reports IsEmpty although both operands contain %s", rangeStr(a), rangeStr(bb), rangeStr(in), model.Render(v))
								return false
							}
						}
					}
					c.Eval(1)
				}
			}
		}
		// the nil-only range against ranges that are open below: both contain nil, whatever the operand order
		nilIDs := map[string]bool{}
		for _, en := range entries {
			if en.v == nil {
				nilIDs[en.id] = true
			}
		}
		for bi := 0; bi < 10; bi++ {
			b := bounds[(bi*len(bounds))/10]
			if b == nil {
				continue
			}
			for flags := 0; flags < 4; flags++ {
				open := &index.Range{Start: nil, End: model.DeepCopy(b), EndIncluded: flags&1 != 0}
				nilOnly := &index.Range{StartIncluded: true, EndIncluded: true}
				var in *index.Range
				if flags&2 != 0 {
					in = nilOnly.Intersect(open)
				} else {
					in = open.Intersect(nilOnly)
				}
				c.Eval(1)
				if in.IsEmpty() {
					c.Violate("range:intersect-excludes", "the intersection of %s and the nil-only range [nil, nil] (receiver: %s) is %s and reports IsEmpty although both contain nil", rangeStr(open), map[bool]string{true: "nil-only", false: "open range"}[flags&2 != 0], rangeStr(in))
					return false
				}
				got := map[string]bool{}
				if err := idx.IterateRange(in, flags&1 != 0, func(id string) error { got[id] = true; return nil }); err != nil {
					c.Violate("index:range-error", "IterateRange(%s): %v", rangeStr(in), err)
					return false
				}
				for id := range nilIDs {
					if !got[id] {
						c.Violate("range:intersect-excludes", "%s ∩ [nil, nil] = %s: scanning it misses an entry whose value is nil", rangeStr(open), rangeStr(in))
						return false
					}
				}
				if len(nilIDs) > 0 {
					c.Cell("intersect|nil-only|%v|%s", flags&2 != 0, typeClass(b))
				}
			}
		}
		nr := 60
		if c.Thorough() {
			nr = 150
		}
		for k := 0; k < nr; k++ {
			rg := &index.Range{Start: model.DeepCopy(gen.Pick(r, bounds)), End: model.DeepCopy(gen.Pick(r, bounds)), StartIncluded: r.Bool(), EndIncluded: r.Bool()}
			switch r.Intn(6) {
			case 0:
				rg.Start, rg.StartIncluded = nil, false
			case 1:
				rg.End, rg.EndIncluded = nil, false
			case 2:
				rg.End, rg.EndIncluded, rg.StartIncluded = model.DeepCopy(rg.Start), true, true
			}
			if !rangeInDomain(rg) {
				rg = &index.Range{StartIncluded: true, EndIncluded: true} // the nil-only range
			}
			rev := r.Bool()
			var got []string
			if err := idx.IterateRange(rg, rev, func(id string) error { got = append(got, id); return nil }); err != nil {
				c.Violate("index:range-error", "IterateRange(%s): %v", rangeStr(rg), err)
				return false
			}
			if !checkScan(c, byID, entries, rg, rev, got, "IterateRange", phase, backend) {
				return false
			}
			// IsEmpty only if nothing can lie in it
			if rg.IsEmpty() {
				e := &model.Eval{}
				for _, b := range bounds {
					if rangeContains(e, rg, b) && !e.Unspec {
						c.Violate("range:isempty", "Range %s reports IsEmpty but contains %s", rangeStr(rg), model.Render(b))
						return false
					}
				}
			}
			// a scan nested inside the consumer of another scan of the same transaction must not disturb it
			if len(got) >= 2 && k%5 == 0 {
				var outer []string
				err := idx.IterateRange(rg, rev, func(id string) error {
					outer = append(outer, id)
					cnt := 0
					return sibling.(index.RangeIndex).Iterate(!rev, func(string) error { cnt++; return nil })
				})
				if err != nil {
					c.Violate("index:range-error", "nested scans: %v", err)
					return false
				}
				if strings.Join(outer, ",") != strings.Join(got, ",") {
					c.Violate("index:nested-scan-disturbed", "IterateRange(%s, reverse=%v) yields %d ids alone but %d when its consumer scans a sibling index in the same transaction (%s, %s)", rangeStr(rg), rev, len(got), len(outer), backend, phase)
					return false
				}
			}
			// stop behaviour
			if len(got) >= 2 {
				j := 1 + r.Intn(len(got)-1)
				for _, sentinel := range []error{index.VerifErrStopIteration, errForeign} {
					calls := 0
					err := idx.IterateRange(rg, rev, func(id string) error {
						calls++
						if calls == j {
							return sentinel
						}
						return nil
					})
					c.Eval(1)
					if calls != j {
						c.Violate("index:stop-ignored", "IterateRange(%s, reverse=%v): consumer asked to stop at call %d but was called %d times", rangeStr(rg), rev, j, calls)
						return false
					}
					if sentinel == errForeign && !errors.Is(err, errForeign) {
						c.Violate("index:error-swallowed", "IterateRange: the consumer's error was not returned (got %v)", err)
						return false
					}
					if sentinel != errForeign && err != nil {
						c.Violate("index:stop-error", "IterateRange: stopping the iteration returned %v", err)
						return false
					}
				}
				calls := 0
				idx.Iterate(rev, func(id string) error {
					calls++
					if calls == 1 {
						return index.VerifErrStopIteration
					}
					return nil
				})
				if calls != 1 {
					c.Violate("index:stop-ignored", "Iterate: consumer asked to stop at call 1 but was called %d times", calls)
					return false
				}
			}
			// intersection with a second range
			r2 := &index.Range{Start: model.DeepCopy(gen.Pick(r, bounds)), End: model.DeepCopy(gen.Pick(r, bounds)), StartIncluded: r.Bool(), EndIncluded: r.Bool()}
			switch r.Intn(4) {
			case 0:
				r2.Start, r2.StartIncluded = nil, false
			case 1:
				r2.End, r2.EndIncluded = nil, false
			}
			if !rangeInDomain(r2) {
				continue
			}
			rgc, r2c := *rg, *r2
			in := rg.Intersect(r2)
			// the same receiver is used again: a receiver narrowed in place gives a wrong second answer
			in2 := rg.Intersect(r2)
			if rangeStr(in) != rangeStr(in2) || rangeStr(rg) != rangeStr(&rgc) || rangeStr(r2) != rangeStr(&r2c) {
				c.Violate("range:intersect-mutates-operand", "Intersect is not repeatable / changed its operands: %s ∩ %s = %s, then %s; operands now %s and %s", rangeStr(&rgc), rangeStr(&r2c), rangeStr(in), rangeStr(in2), rangeStr(rg), rangeStr(r2))
				return false
			}
			e := &model.Eval{}
			want := map[string]bool{}
			for _, en := range entries {
				if rangeContains(e, &rgc, en.v) && rangeContains(e, &r2c, en.v) {
					want[en.id] = true
				}
			}
			if e.Unspec {
				continue
			}
			var gi []string
			if !in.IsEmpty() {
				if err := idx.IterateRange(in, false, func(id string) error { gi = append(gi, id); return nil }); err != nil {
					c.Violate("index:range-error", "IterateRange(intersection %s): %v", rangeStr(in), err)
					return false
				}
			}
			gset := map[string]bool{}
			for _, id := range gi {
				gset[id] = true
			}
			c.Eval(1)
			for id := range want {
				if !gset[id] {
					c.Violate("range:intersect-excludes", "%s ∩ %s = %s (IsEmpty=%v) excludes value %s which both operands contain", rangeStr(rg), rangeStr(r2), rangeStr(in), in.IsEmpty(), model.Render(byID[id]))
					return false
				}
			}
			if len(want) > 0 {
				c.Cell("intersect|%s|%s|%v%v%v%v", typeClass(rg.Start)+"/"+typeClass(rg.End), typeClass(r2.Start)+"/"+typeClass(r2.End), rg.StartIncluded, rg.EndIncluded, r2.StartIncluded, r2.EndIncluded)
			}
		}
		return true
	}

	if !check(idx, sib) {
		tx.Rollback()
		return
	}
	if err := tx.Commit(); err != nil {
		c.Violate("index:commit", "commit: %v", err)
		return
	}
	phase = "read-tx"
	rtx, err := st.Begin(false)
	if err != nil {
		c.Violate("index:begin", "begin: %v", err)
		return
	}
	defer rtx.Rollback()
	if !check(index.CreateIndex(coll, field, index.SingleField, rtx).(index.RangeIndex), index.CreateIndex(coll, field+"y", index.SingleField, rtx)) {
		return
	}
	if !transientFaultScans(c, rtx, coll, field, bounds, byID, entries, backend) {
		return
	}
	c.Sample(map[string]any{"backend": backend, "entries": n, "field": field, "profile_kind": prof.Kind})
}

var errReadFault = errors.New("verif: injected read fault")

// flaky fails exactly one read of a transaction (the failAt-th of Get and of the cursor item reads - the read failures
// property C04 lists; cursor creation and Seek cannot fail on the shipped backends and are left alone) and works again afterwards.
type flaky struct {
	calls, failAt int
	fired         bool
}

func (f *flaky) tick() error {
	f.calls++
	if f.calls == f.failAt {
		f.fired = true
		return errReadFault
	}
	return nil
}

type flakyTx struct {
	store.Tx
	f *flaky
}

func (t flakyTx) Get(k []byte) ([]byte, error) {
	if err := t.f.tick(); err != nil {
		return nil, err
	}
	return t.Tx.Get(k)
}

func (t flakyTx) Cursor(fwd bool) (store.Cursor, error) {
	cur, err := t.Tx.Cursor(fwd)
	if err != nil {
		return nil, err
	}
	return &flakyCursor{Cursor: cur, f: t.f}, nil
}

type flakyCursor struct {
	store.Cursor
	f *flaky
}

func (c *flakyCursor) Item() (store.Item, error) {
	if err := c.f.tick(); err != nil {
		return store.Item{}, err
	}
	return c.Cursor.Item()
}

// transientFaultScans: a range scan during which ONE read of the store fails (and the next succeeds) either reports an
// error or yields exactly the in-range ids in order - never a wrong answer with a nil error.
func transientFaultScans(c *core.Ctx, rtx store.Tx, coll, field string, bounds []any, byID map[string]any, entries []idxEntry, backend string) bool {
	r := c.R
	if len(entries) == 0 {
		return true
	}
	f := &flaky{}
	idx := index.CreateIndex(coll, field, index.SingleField, flakyTx{Tx: rtx, f: f}).(index.RangeIndex)
	nr, firstN, sampled := 5, 16, 4
	if c.Thorough() {
		nr, firstN, sampled = 20, 24, 8
	}
	for k := 0; k < nr; k++ {
		// bounds taken from the stored values, so that the bound value has entries of its own to be stepped over
		rg := &index.Range{Start: model.DeepCopy(entries[r.Intn(len(entries))].v), End: model.DeepCopy(entries[r.Intn(len(entries))].v), StartIncluded: r.Bool(), EndIncluded: r.Bool()}
		switch r.Intn(5) {
		case 0:
			rg.Start, rg.StartIncluded = nil, false
		case 1:
			rg.End, rg.EndIncluded = nil, false
		case 2:
			rg.End = model.DeepCopy(gen.Pick(r, bounds))
		}
		if !rangeInDomain(rg) {
			continue
		}
		rev := r.Bool()
		scan := func(failAt int) ([]string, error) {
			f.calls, f.failAt, f.fired = 0, failAt, false
			var got []string
			err := idx.IterateRange(rg, rev, func(id string) error { got = append(got, id); return nil })
			return got, err
		}
		clean, err := scan(0)
		if err != nil {
			c.Violate("index:range-error", "IterateRange(%s): %v", rangeStr(rg), err)
			return false
		}
		total := f.calls
		positions := []int{}
		for p := 1; p <= total && p <= firstN; p++ {
			positions = append(positions, p)
		}
		for p := 0; p < sampled && total > firstN; p++ {
			positions = append(positions, r.Range(firstN+1, total))
		}
		for _, p := range positions {
			got, err := scan(p)
			c.Eval(1)
			if !f.fired {
				continue
			}
			c.Count("transient_read_faults_injected", 1)
			if err != nil {
				c.Count("transient_read_faults_reported", 1)
				c.Cell("fault-scan|reported|rev=%v|%v%v|%s", rev, rg.StartIncluded, rg.EndIncluded, backendClass(backend))
				continue
			}
			if strings.Join(got, ",") != strings.Join(clean, ",") {
				c.Violate("index:fault-swallowed", "IterateRange(%s, reverse=%v) on %s: read call %d of %d of the scan failed once; the scan returned nil and %d ids instead of the %d in-range ids (without the fault: %v, with it: %v)", rangeStr(rg), rev, backend, p, total, len(got), len(clean), clean, got)
				return false
			}
			c.Cell("fault-scan|exact-despite-fault|rev=%v|%s", rev, backendClass(backend))
		}
	}
	return true
}

// checkScan compares a scan result with the entries the range contains.
func checkScan(c *core.Ctx, byID map[string]any, entries []idxEntry, rg *index.Range, rev bool, got []string, what, phase, backend string) bool {
	e := &model.Eval{}
	want := map[string]bool{}
	for _, en := range entries {
		if rg == nil || rangeContains(e, rg, en.v) {
			want[en.id] = true
		}
	}
	if e.Unspec {
		c.Inconclusive("unspecified_comparison")
		return true
	}
	c.Eval(1)
	desc := what
	if rg != nil {
		desc = fmt.Sprintf("%s(%s)", what, rangeStr(rg))
	}
	desc = fmt.Sprintf("%s reverse=%v on %s (%s, %d entries)", desc, rev, backend, phase, len(entries))
	seen := map[string]bool{}
	for i, id := range got {
		v, known := byID[id]
		if !known {
			c.Violate("index:foreign-entry", "%s yielded %q which is not an entry of this index", desc, id)
			return false
		}
		if seen[id] {
			c.Violate("index:repeated", "%s yielded %q twice", desc, id)
			return false
		}
		seen[id] = true
		if !want[id] {
			c.Violate("index:out-of-range", "%s yielded value %s which is outside the range", desc, model.Render(v))
			return false
		}
		if i > 0 {
			cmp := e.Compare(byID[got[i-1]], v)
			if (!rev && cmp > 0) || (rev && cmp < 0) {
				c.Violate("index:out-of-order", "%s yielded %s before %s", desc, model.Render(byID[got[i-1]]), model.Render(v))
				return false
			}
		}
	}
	for id := range want {
		if !seen[id] {
			sig := "index:missed"
			if rev {
				sig = "index:missed-reverse"
			}
			c.Violate(sig, "%s missed value %s (got %d of %d in-range entries)", desc, model.Render(byID[id]), len(got), len(want))
			return false
		}
	}
	if len(want) > 0 && len(want) < len(entries) && rg != nil {
		hit := "miss"
		for _, en := range entries {
			if (rg.Start != nil && model.Compare(en.v, rg.Start) == 0) || (rg.End != nil && model.Compare(en.v, rg.End) == 0) {
				hit = "hit"
				break
			}
		}
		c.Cell("range|%s/%s|%v%v|rev=%v|bound-%s|%s|%s", typeClass(rg.Start), typeClass(rg.End), rg.StartIncluded, rg.EndIncluded, rev, hit, phase, backendClass(backend))
	}
	return true
}

func backendClass(b string) string {
	switch b {
	case BBolt, BBoltRaw:
		return "bbolt"
	case "mem":
		return "mem"
	}
	return "badger"
}

func sortedIDs(m map[string]bool) []string {
	out := make([]string, 0, len(m))
	for k := range m {
		out = append(out, k)
	}
	sort.Strings(out)
	return out
}
