module verif/harness

go 1.21

require (
	github.com/anishathalye/porcupine v1.3.0
	github.com/dgraph-io/badger/v4 v4.2.0
	github.com/gofrs/uuid/v5 v5.0.0
	github.com/ostafen/clover/v2 v2.0.0
)

require (
	github.com/cespare/xxhash/v2 v2.2.0 // indirect
	github.com/dgraph-io/ristretto v0.1.1 // indirect
	github.com/dustin/go-humanize v1.0.1 // indirect
	github.com/gogo/protobuf v1.3.2 // indirect
	github.com/golang/glog v1.1.2 // indirect
	github.com/golang/groupcache v0.0.0-20210331224755-41bb18bfe9da // indirect
	github.com/golang/protobuf v1.5.3 // indirect
	github.com/golang/snappy v0.0.4 // indirect
	github.com/google/flatbuffers v23.5.26+incompatible // indirect
	github.com/google/orderedcode v0.0.1 // indirect
	github.com/klauspost/compress v1.17.0 // indirect
	github.com/pkg/errors v0.9.1 // indirect
	github.com/vmihailenco/msgpack/v5 v5.3.5 // indirect
	github.com/vmihailenco/tagparser/v2 v2.0.0 // indirect
	go.etcd.io/bbolt v1.3.7 // indirect
	go.opencensus.io v0.24.0 // indirect
	golang.org/x/net v0.15.0 // indirect
	golang.org/x/sys v0.12.0 // indirect
	google.golang.org/protobuf v1.31.0 // indirect
)

replace github.com/ostafen/clover/v2 => /repo
