package mon

import (
	"errors"
	"sort"
	"sync"

	"github.com/ostafen/clover/v2/store"
)

// MemStore is a trivial, obviously-correct store.Store used by the harness as
// the substrate of "fresh rebuild" databases and as the cursor-contract oracle.
// Single writer (mutex), readers get a private copy.
type MemStore struct {
	mu     sync.Mutex // guards data
	wr     sync.Mutex // single writer
	data   map[string][]byte
	closed bool
}

func NewMemStore() *MemStore { return &MemStore{data: map[string][]byte{}} }

func (m *MemStore) Begin(update bool) (store.Tx, error) {
	if update {
		m.wr.Lock()
	}
	m.mu.Lock()
	defer m.mu.Unlock()
	if m.closed {
		if update {
			m.wr.Unlock()
		}
		return nil, errors.New("memstore closed")
	}
	c := make(map[string][]byte, len(m.data))
	for k, v := range m.data {
		c[k] = v
	}
	return &memTx{m: m, data: c, update: update}, nil
}

func (m *MemStore) Close() error {
	m.mu.Lock()
	m.closed = true
	m.mu.Unlock()
	return nil
}

type memTx struct {
	m      *MemStore
	data   map[string][]byte
	update bool
	done   bool
}

func (t *memTx) Set(key, value []byte) error {
	if !t.update {
		return errors.New("read-only transaction")
	}
	v := make([]byte, len(value))
	copy(v, value)
	t.data[string(key)] = v
	return nil
}

func (t *memTx) Get(key []byte) ([]byte, error) {
	v, ok := t.data[string(key)]
	if !ok {
		return nil, nil
	}
	return v, nil
}

func (t *memTx) Delete(key []byte) error {
	if !t.update {
		return errors.New("read-only transaction")
	}
	delete(t.data, string(key))
	return nil
}

func (t *memTx) Commit() error {
	if t.done {
		return errors.New("transaction finished")
	}
	t.done = true
	if t.update {
		t.m.mu.Lock()
		t.m.data = t.data
		t.m.mu.Unlock()
		t.m.wr.Unlock()
	}
	return nil
}

func (t *memTx) Rollback() error {
	if t.done {
		return nil
	}
	t.done = true
	if t.update {
		t.m.wr.Unlock()
	}
	return nil
}

func (t *memTx) Cursor(forward bool) (store.Cursor, error) {
	keys := make([]string, 0, len(t.data))
	for k := range t.data {
		keys = append(keys, k)
	}
	sort.Strings(keys)
	vals := make([][]byte, len(keys))
	for i, k := range keys {
		vals[i] = t.data[k]
	}
	return &memCursor{keys: keys, vals: vals, forward: forward, pos: -1}, nil
}

type memCursor struct {
	keys    []string
	vals    [][]byte
	forward bool
	pos     int
}

func (c *memCursor) Seek(key []byte) error {
	k := string(key)
	if c.forward {
		c.pos = sort.SearchStrings(c.keys, k) // first >= k
	} else {
		i := sort.Search(len(c.keys), func(i int) bool { return c.keys[i] > k }) // first > k
		c.pos = i - 1
	}
	return nil
}

func (c *memCursor) Next() {
	if c.forward {
		c.pos++
	} else {
		c.pos--
	}
}

func (c *memCursor) Valid() bool { return c.pos >= 0 && c.pos < len(c.keys) }

func (c *memCursor) Item() (store.Item, error) {
	if !c.Valid() {
		return store.Item{}, errors.New("invalid cursor")
	}
	return store.Item{Key: []byte(c.keys[c.pos]), Value: c.vals[c.pos]}, nil
}

func (c *memCursor) Close() error { return nil }
