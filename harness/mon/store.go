// Package mon contains the store-seam monitor: a store.Store wrapper that
// records, perturbs, fails or kills at every store call clover makes.
package mon

import (
	"bytes"
	"errors"
	"fmt"
	"os"
	"runtime"
	"sort"
	"sync"
	"sync/atomic"
	"syscall"
	"time"

	"github.com/ostafen/clover/v2/store"
)

var ErrInjected = errors.New("verif: injected store failure")
var ErrRunaway = errors.New("verif: store call budget exhausted (runaway operation)")

type Kind int

const (
	KBegin Kind = iota
	KGet
	KSet
	KDelete
	KCursor
	KSeek
	KNext
	KValid
	KItem
	KCurClose
	KCommit
	KRollback
	nKinds
)

var kindNames = [...]string{"begin", "get", "set", "delete", "cursor", "seek", "next", "valid", "item", "curclose", "commit", "rollback"}

func (k Kind) String() string { return kindNames[k] }

// Faultable reports whether the property C04 lists this call kind.
func (k Kind) Faultable() bool {
	switch k {
	case KBegin, KGet, KSet, KDelete, KItem, KCommit:
		return true
	}
	return false
}

// Event is one store call as seen by the monitor.
type Event struct {
	Kind   Kind
	Tx     int
	Write  bool // transaction opened for update
	Class  string
	Failed bool
}

// OpStats summarises the store calls made between BeginOp and EndOp.
type OpStats struct {
	Calls                int
	ByKind               [nKinds]int
	TxBegun              int
	TxFinished           int // committed or rolled back
	Commits              int // successful commits
	CommitsAfterMutation int
	MutatingTx           map[int]bool // tx ids that issued Set/Delete
	Sets, Deletes        int
	ReadTxMutation       bool // Set/Delete issued on a read-only transaction
	Trace                []Event
	IndexSeeks           int // cursor seeks landing in an index key class (coverage only)
	DocSeeks             int
	ReverseCursors       int
	IndexCursorKeys      map[string]bool
	Injected             int // faults injected
	Runaway              bool
	UseAfterFinish       int // calls on a finished transaction
}

type Fault struct {
	Nth    int  // 1-based index among faultable calls of the operation (0 = none)
	Sticky bool // every later call of that transaction fails too
	// Err, when set, is the error handed to clover instead of ErrInjected (e.g. one that wraps the store's own
	// conflict sentinel). EveryCommit: every Commit after position Nth fails as well, in whatever transaction
	// (a store that keeps refusing, however often the operation retries).
	Err         error
	EveryCommit bool
}

// Perturb configures schedule perturbation at store calls.
type Perturb struct {
	On   bool
	Seed uint64
	Pct  int // percent of calls perturbed
	// AfterGetUs > 0: a Get in a read-only transaction is, for Pct percent of the calls, also followed by a sleep of
	// up to that many microseconds (a reader descheduled between reading a record and acting on what it read)
	AfterGetUs int
}

type Store struct {
	inner store.Store

	mu      sync.Mutex
	nextTx  int
	open    map[int]*Tx
	op      *OpStats
	fault   Fault
	faultCt int
	killAt  int // kill the process at the n-th store call of the operation (0 = off)
	budget  int // call budget for the operation (0 = unlimited)
	trace   bool

	poison     bool
	failCommit bool // the next Commit fails (one-shot), whatever its position

	perturb Perturb
	pctr    uint64

	totalCalls uint64
	leaked     int

	// sequential engines: the goroutine that issues the operations. A write transaction begun by any other
	// goroutine (work an operation left behind for later) is held back until the driver has started holdOps
	// further operations: a legal schedule (that goroutine just runs late) which makes "the deferred work
	// meets the next operations" the common case instead of a rare one. Its calls are not charged to the
	// operation that happens to be running.
	driver      int64
	holdOps     int
	opSeq       uint64
	released    bool
	holdCond    *sync.Cond
	hook        atomic.Value // func(k Kind, write bool, gid int64): called at every store call, outside the monitor's lock
	ForeignHeld uint64 // foreign write transactions held back (evidence)
	ForeignTx   uint64 // transactions begun by a goroutine other than the driver
}

// goid returns the id of the calling goroutine (monitor bookkeeping only).
func goid() int64 {
	var buf [64]byte
	n := runtime.Stack(buf[:], false)
	var id int64
	for _, ch := range buf[len("goroutine "):n] {
		if ch < '0' || ch > '9' {
			break
		}
		id = id*10 + int64(ch-'0')
	}
	return id
}

// SetDriver declares the calling goroutine the one that issues the operations; write transactions of other
// goroutines are held back for holdOps operations (0 = not held, only told apart).
func (s *Store) SetDriver(holdOps int) {
	s.mu.Lock()
	s.driver = goid()
	s.holdOps = holdOps
	s.released = false
	if s.holdCond == nil {
		s.holdCond = sync.NewCond(&s.mu)
	}
	s.mu.Unlock()
}

// ReleaseForeign lets every held transaction go (end of a case, Close).
func (s *Store) ReleaseForeign() {
	s.mu.Lock()
	s.released = true
	if s.holdCond != nil {
		s.holdCond.Broadcast()
	}
	s.mu.Unlock()
}

// isForeign reports whether the caller is not the driver; it holds a foreign write transaction back.
func (s *Store) isForeign(update bool) bool {
	s.mu.Lock()
	defer s.mu.Unlock()
	if s.driver == 0 || goid() == s.driver {
		return false
	}
	atomic.AddUint64(&s.ForeignTx, 1)
	if update && s.holdOps > 0 && !s.released {
		atomic.AddUint64(&s.ForeignHeld, 1)
		until := s.opSeq + uint64(s.holdOps)
		// watchdog: a helper goroutine the running operation waits for must not be held for ever
		t := time.AfterFunc(500*time.Millisecond, func() {
			s.mu.Lock()
			s.holdCond.Broadcast()
			s.mu.Unlock()
		})
		start := time.Now()
		for s.opSeq < until && !s.released && time.Since(start) < 500*time.Millisecond {
			s.holdCond.Wait()
		}
		t.Stop()
	}
	return true
}

func Wrap(inner store.Store) *Store {
	return &Store{inner: inner, open: map[int]*Tx{}, poison: true}
}

func (s *Store) Inner() store.Store { return s.inner }

func (s *Store) SetPoison(on bool) { s.poison = on }

func (s *Store) SetPerturb(p Perturb) { s.perturb = p }

func (s *Store) TotalCalls() uint64 { return atomic.LoadUint64(&s.totalCalls) }

// BeginOp starts accounting for one public operation (sequential engines only).
func (s *Store) BeginOp(trace bool) {
	s.mu.Lock()
	defer s.mu.Unlock()
	s.op = &OpStats{MutatingTx: map[int]bool{}, IndexCursorKeys: map[string]bool{}}
	s.trace = trace
	s.faultCt = 0
	s.opSeq++
	if s.holdCond != nil {
		s.holdCond.Broadcast()
	}
}

// EndOp stops accounting and returns the statistics.
func (s *Store) EndOp() *OpStats {
	s.mu.Lock()
	defer s.mu.Unlock()
	op := s.op
	s.op = nil
	s.fault = Fault{}
	s.killAt = 0
	s.budget = 0
	if op == nil {
		op = &OpStats{MutatingTx: map[int]bool{}}
	}
	return op
}

// OpenTx returns the number of transactions currently open.
func (s *Store) OpenTx() int {
	s.mu.Lock()
	defer s.mu.Unlock()
	return len(s.open)
}

func (s *Store) SetFault(f Fault) { s.mu.Lock(); s.fault = f; s.faultCt = 0; s.mu.Unlock() }
func (s *Store) SetKillAt(n int)  { s.mu.Lock(); s.killAt = n; s.mu.Unlock() }
func (s *Store) SetBudget(n int)  { s.mu.Lock(); s.budget = n; s.mu.Unlock() }

// FailNextCommit makes the next Commit of a mutating transaction fail once (the inner transaction is rolled back).
func (s *Store) FailNextCommit() { s.mu.Lock(); s.failCommit = true; s.mu.Unlock() }

// DisarmFailCommit withdraws a FailNextCommit that was not consumed.
func (s *Store) DisarmFailCommit() { s.mu.Lock(); s.failCommit = false; s.mu.Unlock() }

// SetHook installs (or, with nil, removes) a function called at every store call of a transaction, before the
// call is forwarded: engines use it to hold one goroutine at a chosen call while another one proceeds (a forced,
// legal interleaving).
func (s *Store) SetHook(f func(k Kind, write bool, gid int64)) {
	if f == nil {
		f = func(Kind, bool, int64) {}
	}
	s.hook.Store(f)
}

// Goid returns the id of the calling goroutine.
func Goid() int64 { return goid() }

// call is invoked at every store call. It returns an error to inject.
func (s *Store) call(k Kind, tx *Tx, class string) error {
	atomic.AddUint64(&s.totalCalls, 1)
	s.maybePerturb()
	if h, _ := s.hook.Load().(func(Kind, bool, int64)); h != nil && tx != nil {
		h(k, tx.write, goid())
	}
	s.mu.Lock()
	defer s.mu.Unlock()
	var err error
	if tx != nil && tx.foreign {
		if tx.dead && k != KRollback {
			err = ErrInjected
		}
		return err
	}
	if k == KCommit && s.failCommit && tx != nil && tx.mutated {
		s.failCommit = false
		err = ErrInjected
		if s.op != nil {
			s.op.Injected++
		}
	}
	if tx != nil && tx.finished && k != KRollback {
		if s.op != nil {
			s.op.UseAfterFinish++
		}
	}
	if s.op != nil {
		s.op.Calls++
		s.op.ByKind[k]++
		if s.killAt > 0 && s.op.Calls == s.killAt {
			// die like a crashed process: no deferred functions, no flush
			syscall.Kill(os.Getpid(), syscall.SIGKILL)
			time.Sleep(time.Hour)
		}
		if s.budget > 0 && s.op.Calls > s.budget {
			s.op.Runaway = true
			err = ErrRunaway
		}
		if k.Faultable() {
			s.faultCt++
			if s.fault.Nth > 0 && (s.faultCt == s.fault.Nth || (s.fault.EveryCommit && s.faultCt > s.fault.Nth && k == KCommit)) {
				err = ErrInjected
				if s.fault.Err != nil {
					err = s.fault.Err
				}
				s.op.Injected++
				if s.fault.Sticky && tx != nil {
					tx.dead = true
				}
			}
		}
		if err == nil && tx != nil && tx.dead && k != KRollback {
			err = ErrInjected
			s.op.Injected++
		}
		if s.trace {
			e := Event{Kind: k, Class: class, Failed: err != nil}
			if tx != nil {
				e.Tx, e.Write = tx.id, tx.write
			}
			s.op.Trace = append(s.op.Trace, e)
		}
	} else if tx != nil && tx.dead && k != KRollback {
		err = ErrInjected
	}
	return err
}

func (s *Store) maybePerturb() {
	p := s.perturb
	if !p.On {
		return
	}
	n := atomic.AddUint64(&s.pctr, 1)
	x := (n + p.Seed) * 0x9e3779b97f4a7c15
	x ^= x >> 29
	x *= 0xbf58476d1ce4e5b9
	x ^= x >> 32
	if int(x%100) >= p.Pct {
		return
	}
	switch (x >> 8) % 4 {
	case 0, 1:
		runtime.Gosched()
	case 2:
		time.Sleep(time.Duration(1+(x>>16)%50) * time.Microsecond)
	default:
		for i := 0; i < 3; i++ {
			runtime.Gosched()
		}
	}
}

func (s *Store) maybePerturbAfterGet() {
	p := s.perturb
	if !p.On || p.AfterGetUs <= 0 {
		return
	}
	n := atomic.AddUint64(&s.pctr, 1)
	x := (n + p.Seed + 77) * 0x9e3779b97f4a7c15
	x ^= x >> 29
	x *= 0xbf58476d1ce4e5b9
	x ^= x >> 32
	if int(x%100) >= p.Pct {
		return
	}
	time.Sleep(time.Duration(1+(x>>16)%uint64(p.AfterGetUs)) * time.Microsecond)
}

// KeyClass classifies a key for coverage evidence only (never for a verdict).
func KeyClass(key []byte) string {
	switch {
	case bytes.HasPrefix(key, []byte("coll:")):
		return "catalog"
	case bytes.HasPrefix(key, []byte("c:")):
		if i := bytes.Index(key, []byte(";i:")); i >= 0 {
			return "index"
		}
		if i := bytes.Index(key, []byte(";d:")); i >= 0 {
			return "doc"
		}
	}
	return "other"
}

func (s *Store) Begin(update bool) (store.Tx, error) {
	foreign := s.isForeign(update)
	if foreign {
		atomic.AddUint64(&s.totalCalls, 1)
	} else if err := s.call(KBegin, nil, ""); err != nil {
		return nil, err
	}
	inner, err := s.inner.Begin(update)
	if err != nil {
		return nil, err
	}
	s.mu.Lock()
	s.nextTx++
	tx := &Tx{s: s, inner: inner, id: s.nextTx, write: update, foreign: foreign}
	s.open[tx.id] = tx
	if s.op != nil && !foreign {
		s.op.TxBegun++
	}
	s.mu.Unlock()
	return tx, nil
}

func (s *Store) Close() error {
	s.ReleaseForeign()
	return s.inner.Close()
}

type Tx struct {
	s        *Store
	inner    store.Tx
	id       int
	write    bool
	finished bool
	dead     bool
	mutated  bool
	foreign  bool     // begun by a goroutine other than the driver: not charged to the running operation
	handed   [][]byte // value copies handed out, poisoned at the end of the transaction
}

func (t *Tx) hand(v []byte) []byte {
	if v == nil || !t.s.poison {
		return v
	}
	c := make([]byte, len(v))
	copy(c, v)
	t.handed = append(t.handed, c)
	return c
}

func (t *Tx) finish() {
	t.s.mu.Lock()
	if !t.finished {
		t.finished = true
		delete(t.s.open, t.id)
		if t.s.op != nil && !t.foreign {
			t.s.op.TxFinished++
		}
	}
	t.s.mu.Unlock()
	for _, b := range t.handed {
		for i := range b {
			b[i] = 0xDB
		}
	}
	t.handed = nil
}

func (t *Tx) noteMutation(k Kind) {
	t.s.mu.Lock()
	t.mutated = true
	if op := t.s.op; op != nil && !t.foreign {
		op.MutatingTx[t.id] = true
		if k == KSet {
			op.Sets++
		} else {
			op.Deletes++
		}
		if !t.write {
			op.ReadTxMutation = true
		}
	}
	t.s.mu.Unlock()
}

func (t *Tx) Set(key, value []byte) error {
	if err := t.s.call(KSet, t, KeyClass(key)); err != nil {
		return err
	}
	t.noteMutation(KSet)
	return t.inner.Set(key, value)
}

func (t *Tx) Get(key []byte) ([]byte, error) {
	if err := t.s.call(KGet, t, KeyClass(key)); err != nil {
		return nil, err
	}
	v, err := t.inner.Get(key)
	if !t.write {
		t.s.maybePerturbAfterGet()
	}
	return t.hand(v), err
}

func (t *Tx) Delete(key []byte) error {
	if err := t.s.call(KDelete, t, KeyClass(key)); err != nil {
		return err
	}
	t.noteMutation(KDelete)
	return t.inner.Delete(key)
}

func (t *Tx) Cursor(forward bool) (store.Cursor, error) {
	if err := t.s.call(KCursor, t, ""); err != nil {
		return nil, err
	}
	c, err := t.inner.Cursor(forward)
	if err != nil {
		return nil, err
	}
	if !forward {
		t.s.mu.Lock()
		if t.s.op != nil {
			t.s.op.ReverseCursors++
		}
		t.s.mu.Unlock()
	}
	return &Cursor{t: t, inner: c, forward: forward}, nil
}

func (t *Tx) Commit() error {
	if err := t.s.call(KCommit, t, ""); err != nil {
		t.inner.Rollback()
		t.finish()
		return err
	}
	err := t.inner.Commit()
	if err == nil {
		t.s.mu.Lock()
		if op := t.s.op; op != nil && !t.foreign {
			op.Commits++
			if t.mutated {
				op.CommitsAfterMutation++
			}
		}
		t.s.mu.Unlock()
	}
	t.finish()
	return err
}

func (t *Tx) Rollback() error {
	t.s.call(KRollback, t, "")
	err := t.inner.Rollback()
	t.finish()
	return err
}

type Cursor struct {
	t       *Tx
	inner   store.Cursor
	forward bool
	// copies of keys/values handed out since the cursor last moved: badger only guarantees an item's key
	// and value until the iterator advances, so they are poisoned when this cursor moves or is closed
	lent [][]byte
}

func (c *Cursor) invalidate() {
	if !c.t.s.poison {
		c.lent = nil
		return
	}
	for _, b := range c.lent {
		for i := range b {
			b[i] = 0xDB
		}
	}
	c.lent = nil
}

func (c *Cursor) Seek(key []byte) error {
	class := KeyClass(key)
	if err := c.t.s.call(KSeek, c.t, class); err != nil {
		return err
	}
	c.t.s.mu.Lock()
	if op := c.t.s.op; op != nil {
		if class == "index" {
			op.IndexSeeks++
		} else if class == "doc" {
			op.DocSeeks++
		}
	}
	c.t.s.mu.Unlock()
	c.invalidate()
	return c.inner.Seek(key)
}

func (c *Cursor) Next() {
	c.t.s.call(KNext, c.t, "")
	c.invalidate()
	c.inner.Next()
}

func (c *Cursor) Valid() bool {
	if err := c.t.s.call(KValid, c.t, ""); err != nil {
		return false
	}
	return c.inner.Valid()
}

func (c *Cursor) Item() (store.Item, error) {
	if err := c.t.s.call(KItem, c.t, ""); err != nil {
		return store.Item{}, err
	}
	it, err := c.inner.Item()
	if err != nil {
		return it, err
	}
	k := make([]byte, len(it.Key))
	copy(k, it.Key)
	var v []byte
	if it.Value != nil {
		v = make([]byte, len(it.Value))
		copy(v, it.Value)
	}
	c.lent = append(c.lent, k, v)
	return store.Item{Key: k, Value: v}, nil
}

func (c *Cursor) Close() error {
	c.t.s.call(KCurClose, c.t, "")
	c.invalidate()
	return c.inner.Close()
}

// ------------------------------------------------------------ raw snapshot

type KV struct{ K, V []byte }

// Snapshot lists every key/value of a store through a read transaction.
func Snapshot(st store.Store) ([]KV, error) {
	tx, err := st.Begin(false)
	if err != nil {
		return nil, err
	}
	defer tx.Rollback()
	cur, err := tx.Cursor(true)
	if err != nil {
		return nil, err
	}
	defer cur.Close()
	if err := cur.Seek([]byte{}); err != nil {
		return nil, err
	}
	var out []KV
	for ; cur.Valid(); cur.Next() {
		it, err := cur.Item()
		if err != nil {
			return nil, err
		}
		out = append(out, KV{append([]byte(nil), it.Key...), append([]byte(nil), it.Value...)})
	}
	sort.Slice(out, func(i, j int) bool { return bytes.Compare(out[i].K, out[j].K) < 0 })
	return out, nil
}

// DiffSnapshots returns a description of the first difference ("" if equal).
func DiffSnapshots(a, b []KV) string {
	i, j := 0, 0
	for i < len(a) && j < len(b) {
		c := bytes.Compare(a[i].K, b[j].K)
		if c < 0 {
			return fmt.Sprintf("key %q only in first (first has %d keys, second %d)", a[i].K, len(a), len(b))
		}
		if c > 0 {
			return fmt.Sprintf("key %q only in second (first has %d keys, second %d)", b[j].K, len(a), len(b))
		}
		if !bytes.Equal(a[i].V, b[j].V) {
			return fmt.Sprintf("value of key %q differs", a[i].K)
		}
		i++
		j++
	}
	if i < len(a) {
		return fmt.Sprintf("key %q only in first (first has %d keys, second %d)", a[i].K, len(a), len(b))
	}
	if j < len(b) {
		return fmt.Sprintf("key %q only in second (first has %d keys, second %d)", b[j].K, len(a), len(b))
	}
	return ""
}
