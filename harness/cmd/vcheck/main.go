package main

import (
	"encoding/json"
	"flag"
	"fmt"
	"os"
	"path/filepath"
	"strconv"

	"verif/harness/core"
	"verif/harness/drive"
)

func seedFromEnv() uint64 {
	if s := os.Getenv("VERIF_SEED"); s != "" {
		if n, err := strconv.ParseInt(s, 10, 64); err == nil {
			return uint64(n)
		}
		if n, err := strconv.ParseUint(s, 10, 64); err == nil {
			return n
		}
	}
	return 20261002
}

func main() {
	if len(os.Args) < 2 {
		fmt.Println("usage: vcheck run|worker|replay ...")
		os.Exit(2)
	}
	switch os.Args[1] {
	case "run":
		fs := flag.NewFlagSet("run", flag.ExitOnError)
		prop := fs.String("prop", "", "property id")
		tier := fs.String("tier", "quick", "quick|thorough")
		verif := fs.String("verif", "/verif", "verif directory")
		work := fs.String("work", "", "work directory")
		raceBin := fs.String("racebin", "", "race-enabled binary")
		jobs := fs.Int("jobs", 0, "parallel workers")
		fs.Parse(os.Args[2:])
		if t := os.Getenv("VERIF_TIER"); t == "quick" || t == "thorough" {
			*tier = t
		}
		self, _ := os.Executable()
		os.Exit(core.Coordinate(core.CoordOpts{Prop: *prop, Tier: *tier, Seed: seedFromEnv(), VerifDir: *verif, WorkDir: *work, Bin: self, RaceBin: *raceBin, Jobs: *jobs}))
	case "worker":
		fs := flag.NewFlagSet("worker", flag.ExitOnError)
		prop := fs.String("prop", "", "")
		tier := fs.String("tier", "quick", "")
		seed := fs.Uint64("seed", 0, "")
		shard := fs.Int("shard", 0, "")
		nshards := fs.Int("nshards", 1, "")
		out := fs.String("out", "", "")
		race := fs.Bool("race", false, "")
		fs.Parse(os.Args[2:])
		os.Exit(core.Worker(*prop, *tier, *seed, *shard, *nshards, *out, *race))
	case "crashchild":
		fs := flag.NewFlagSet("crashchild", flag.ExitOnError)
		dir := fs.String("dir", "", "")
		backend := fs.String("backend", "", "")
		seed := fs.Uint64("seed", 0, "")
		start := fs.Int("start", 0, "")
		killop := fs.Int("killop", -1, "")
		killcall := fs.Int("killcall", 0, "")
		ack := fs.String("ack", "", "")
		fs.Parse(os.Args[2:])
		os.Exit(drive.CrashChild(*dir, *backend, *seed, *start, *killop, *killcall, *ack))
	case "replay":
		// re-executes the single case a replay file describes
		if len(os.Args) < 3 {
			fmt.Println("usage: vcheck replay <file>")
			os.Exit(2)
		}
		b, err := os.ReadFile(os.Args[2])
		if err != nil {
			fmt.Println(err)
			os.Exit(2)
		}
		var v core.Violation
		if err := json.Unmarshal(b, &v); err != nil {
			fmt.Println(err)
			os.Exit(2)
		}
		os.Exit(core.Replay(&v, filepath.Dir(os.Args[2])))
	default:
		fmt.Println("unknown command", os.Args[1])
		os.Exit(2)
	}
}
