package model

import (
	"github.com/ostafen/clover/v2/document"
	"github.com/ostafen/clover/v2/query"
)

func (o Operand) clover() any {
	switch o.Kind {
	case RefField:
		return query.Field(o.Ref)
	case RefDollar:
		return "$" + o.Ref
	}
	if o.Go != nil {
		return o.Go
	}
	return DeepCopy(o.Val)
}

// ToClover builds the criteria through the public builder API.
func (c *Crit) ToClover() query.Criteria {
	f := query.Field(c.Field)
	switch c.Op {
	case OpExists:
		return f.Exists()
	case OpNotExists:
		return f.NotExists()
	case OpEq:
		return f.Eq(c.Arg.clover())
	case OpNeq:
		return f.Neq(c.Arg.clover())
	case OpGt:
		return f.Gt(c.Arg.clover())
	case OpGtEq:
		return f.GtEq(c.Arg.clover())
	case OpLt:
		return f.Lt(c.Arg.clover())
	case OpLtEq:
		return f.LtEq(c.Arg.clover())
	case OpIn:
		args := make([]any, len(c.Args))
		for i, a := range c.Args {
			args[i] = a.clover()
		}
		return f.In(args...)
	case OpContains:
		args := make([]any, len(c.Args))
		for i, a := range c.Args {
			args[i] = a.clover()
		}
		return f.Contains(args...)
	case OpLike:
		return f.Like(c.Pattern)
	case OpFunc:
		fn := c.Func.F
		// MatchFunc is only reachable through Query.MatchFunc; build the same
		// criterion through it and take it back out.
		q := query.NewQuery("").MatchFunc(func(doc *document.Document) bool {
			return fn(doc.Get, doc.Has)
		})
		return q.Criteria()
	case OpAnd:
		return c.Kids[0].ToClover().And(c.Kids[1].ToClover())
	case OpOr:
		return c.Kids[0].ToClover().Or(c.Kids[1].ToClover())
	case OpNot:
		return c.Kids[0].ToClover().Not()
	}
	panic("bad op")
}

// ToClover builds the query through the public builder API, in the order
// Where, Sort, Skip, Limit.
func (q *Query) ToClover() *query.Query {
	cq := query.NewQuery(q.Coll)
	if q.Crit != nil {
		cq = cq.Where(q.Crit.ToClover())
	}
	if q.Sorted {
		opts := make([]query.SortOption, len(q.Sort))
		for i, o := range q.Sort {
			opts[i] = query.SortOption{Field: o.Field, Direction: o.Dir}
		}
		cq = cq.Sort(opts...)
	}
	if q.HasSkip {
		cq = cq.Skip(q.Skip)
	}
	if q.HasLimit {
		cq = cq.Limit(q.Limit)
	}
	return cq
}

// NewDoc turns a model document into a clover document (deep copy first, so the
// model never shares memory with the code under test).
func NewDoc(m map[string]any) *document.Document {
	return document.NewDocumentOf(CopyDoc(m))
}

// FromDoc extracts a deep copy of a clover document's fields.
func FromDoc(d *document.Document) map[string]any {
	if d == nil {
		return nil
	}
	return CopyDoc(d.ToMap())
}

func FromDocs(ds []*document.Document) []map[string]any {
	out := make([]map[string]any, len(ds))
	for i, d := range ds {
		out[i] = FromDoc(d)
	}
	return out
}
