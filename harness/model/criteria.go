package model

import (
	"fmt"
	"regexp"
	"strings"
)

type OpKind int

const (
	OpExists OpKind = iota
	OpNotExists
	OpEq
	OpNeq
	OpGt
	OpGtEq
	OpLt
	OpLtEq
	OpIn
	OpContains
	OpLike
	OpFunc
	OpAnd
	OpOr
	OpNot
)

var opNames = [...]string{"Exists", "NotExists", "Eq", "Neq", "Gt", "GtEq", "Lt", "LtEq", "In", "Contains", "Like", "Func", "And", "Or", "Not"}

func (o OpKind) String() string { return opNames[o] }

const (
	Lit       = 0 // literal value
	RefField  = 1 // query.Field(name)
	RefDollar = 2 // "$name"
)

// Operand is a literal or a reference to another field of the document under test.
type Operand struct {
	Kind int
	Val  any    // canonical literal (Kind==Lit)
	Go   any    // optional: the same literal as another Go type, handed to clover instead of Val
	Ref  string // field name (Kind!=Lit)
}

func L(v any) Operand       { return Operand{Kind: Lit, Val: v} }
func RefF(n string) Operand { return Operand{Kind: RefField, Ref: n} }
func RefD(n string) Operand { return Operand{Kind: RefDollar, Ref: n} }

func (o Operand) String() string {
	switch o.Kind {
	case RefField:
		return "Field(" + o.Ref + ")"
	case RefDollar:
		return "\"$" + o.Ref + "\""
	}
	if o.Go != nil {
		return fmt.Sprintf("%s<as %T>", Render(o.Val), o.Go)
	}
	return Render(o.Val)
}

func (o Operand) resolve(doc map[string]any) any {
	if o.Kind == Lit {
		// a literal string starting with '$' denotes a field in clover
		if s, ok := o.Val.(string); ok && strings.HasPrefix(s, "$") {
			return Get(doc, strings.TrimLeft(s, "$"))
		}
		return o.Val
	}
	return Get(doc, o.Ref)
}

// NamedFunc is a MatchFunc predicate from the fixed library; it is written
// against accessor functions so the same predicate runs on a model document
// and on a real *document.Document.
type NamedFunc struct {
	Name string
	F    func(get func(string) any, has func(string) bool) bool
}

type Crit struct {
	Op      OpKind
	Field   string
	Arg     Operand
	Args    []Operand
	Pattern string
	Func    *NamedFunc
	Kids    []*Crit
}

func (c *Crit) String() string {
	switch c.Op {
	case OpExists, OpNotExists:
		return fmt.Sprintf("%s(%s)", c.Op, c.Field)
	case OpEq, OpNeq, OpGt, OpGtEq, OpLt, OpLtEq:
		return fmt.Sprintf("%s(%s,%s)", c.Op, c.Field, c.Arg)
	case OpIn, OpContains:
		parts := make([]string, len(c.Args))
		for i, a := range c.Args {
			parts[i] = a.String()
		}
		return fmt.Sprintf("%s(%s,[%s])", c.Op, c.Field, strings.Join(parts, ","))
	case OpLike:
		return fmt.Sprintf("Like(%s,%q)", c.Field, c.Pattern)
	case OpFunc:
		return "Func(" + c.Func.Name + ")"
	case OpAnd, OpOr:
		return fmt.Sprintf("%s(%s,%s)", c.Op, c.Kids[0], c.Kids[1])
	case OpNot:
		return fmt.Sprintf("Not(%s)", c.Kids[0])
	}
	return "?"
}

// Shape is a coarse structural class used for coverage cells.
func (c *Crit) Shape() string {
	switch c.Op {
	case OpAnd, OpOr:
		return fmt.Sprintf("%s(%s,%s)", c.Op, c.Kids[0].Shape(), c.Kids[1].Shape())
	case OpNot:
		return "Not(" + c.Kids[0].Shape() + ")"
	case OpEq, OpNeq, OpGt, OpGtEq, OpLt, OpLtEq:
		k := "lit"
		if c.Arg.Kind != Lit {
			k = "ref"
		} else if c.Arg.Val == nil {
			k = "nil"
		}
		return c.Op.String() + ":" + k
	}
	return c.Op.String()
}

func (c *Crit) Depth() int {
	d := 0
	for _, k := range c.Kids {
		if kd := k.Depth(); kd > d {
			d = kd
		}
	}
	return d + 1
}

// Leaves appends the leaf operators.
func (c *Crit) Leaves(out *[]*Crit) {
	if len(c.Kids) == 0 {
		*out = append(*out, c)
		return
	}
	for _, k := range c.Kids {
		k.Leaves(out)
	}
}

func And(a, b *Crit) *Crit { return &Crit{Op: OpAnd, Kids: []*Crit{a, b}} }
func Or(a, b *Crit) *Crit  { return &Crit{Op: OpOr, Kids: []*Crit{a, b}} }
func Not(a *Crit) *Crit    { return &Crit{Op: OpNot, Kids: []*Crit{a}} }
func Cmp(op OpKind, f string, o Operand) *Crit {
	return &Crit{Op: op, Field: f, Arg: o}
}

// Sat evaluates the criteria on a model document under the documented semantics.
func (c *Crit) Sat(e *Eval, doc map[string]any) bool {
	switch c.Op {
	case OpExists:
		return Has(doc, c.Field)
	case OpNotExists:
		return !Has(doc, c.Field)
	case OpEq:
		return Has(doc, c.Field) && e.Compare(Get(doc, c.Field), c.Arg.resolve(doc)) == 0
	case OpNeq:
		return !(Has(doc, c.Field) && e.Compare(Get(doc, c.Field), c.Arg.resolve(doc)) == 0)
	case OpGt:
		return e.Compare(Get(doc, c.Field), c.Arg.resolve(doc)) > 0
	case OpGtEq:
		return e.Compare(Get(doc, c.Field), c.Arg.resolve(doc)) >= 0
	case OpLt:
		return e.Compare(Get(doc, c.Field), c.Arg.resolve(doc)) < 0
	case OpLtEq:
		return e.Compare(Get(doc, c.Field), c.Arg.resolve(doc)) <= 0
	case OpIn:
		fv := Get(doc, c.Field)
		for _, a := range c.Args {
			if e.Compare(a.resolve(doc), fv) == 0 {
				return true
			}
		}
		return false
	case OpContains:
		arr, ok := Get(doc, c.Field).([]any)
		if !ok {
			return false
		}
		for _, a := range c.Args {
			want := a.resolve(doc)
			found := false
			for _, m := range arr {
				if e.Compare(want, m) == 0 {
					found = true
					break
				}
			}
			if !found {
				return false
			}
		}
		return true
	case OpLike:
		s, ok := Get(doc, c.Field).(string)
		if !ok {
			return false
		}
		re, err := regexp.Compile(c.Pattern)
		if err != nil {
			return false
		}
		return re.MatchString(s)
	case OpFunc:
		return c.Func.F(func(p string) any { return Get(doc, p) }, func(p string) bool { return Has(doc, p) })
	case OpAnd:
		a := c.Kids[0].Sat(e, doc)
		b := c.Kids[1].Sat(e, doc)
		return a && b
	case OpOr:
		a := c.Kids[0].Sat(e, doc)
		b := c.Kids[1].Sat(e, doc)
		return a || b
	case OpNot:
		return !c.Kids[0].Sat(e, doc)
	}
	panic("bad op")
}
