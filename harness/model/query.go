package model

import (
	"fmt"
	"sort"
	"strings"
)

type SortOpt struct {
	Field string
	Dir   int
}

// Query mirrors the public builder: NewQuery(c).Where(crit).Skip(n).Limit(m).Sort(opts...).
type Query struct {
	Coll     string
	Crit     *Crit
	Skip     int  // as passed (negative = ignored)
	Limit    int  // as passed (negative = unlimited)
	HasSkip  bool // builder call made
	HasLimit bool
	Sorted   bool      // Sort(...) called
	Sort     []SortOpt // empty + Sorted = Sort() = by _id ascending
}

func (q *Query) String() string {
	var b strings.Builder
	fmt.Fprintf(&b, "Q(%q", q.Coll)
	if q.Crit != nil {
		fmt.Fprintf(&b, " where %s", q.Crit)
	}
	if q.Sorted {
		fmt.Fprintf(&b, " sort%v", q.Sort)
	}
	if q.HasSkip {
		fmt.Fprintf(&b, " skip %d", q.Skip)
	}
	if q.HasLimit {
		fmt.Fprintf(&b, " limit %d", q.Limit)
	}
	b.WriteString(")")
	return b.String()
}

func (q *Query) Clone() *Query {
	c := *q
	c.Sort = append([]SortOpt(nil), q.Sort...)
	return &c
}

// EffSort returns the effective sort options (nil when unsorted).
func (q *Query) EffSort() []SortOpt {
	if !q.Sorted {
		return nil
	}
	if len(q.Sort) == 0 {
		return []SortOpt{{Field: "_id", Dir: 1}}
	}
	out := make([]SortOpt, len(q.Sort))
	for i, o := range q.Sort {
		d := 1
		if o.Dir < 0 {
			d = -1
		}
		out[i] = SortOpt{o.Field, d}
	}
	return out
}

func (q *Query) EffSkip() int {
	if q.HasSkip && q.Skip > 0 {
		return q.Skip
	}
	return 0
}

// EffLimit returns -1 for unlimited.
func (q *Query) EffLimit() int {
	if q.HasLimit && q.Limit >= 0 {
		return q.Limit
	}
	return -1
}

// Window computes the [from,to) window over n matching documents.
func (q *Query) Window(n int) (int, int) {
	from := q.EffSkip()
	if from > n {
		from = n
	}
	to := n
	if l := q.EffLimit(); l >= 0 && l < to-from {
		to = from + l
	}
	return from, to
}

// Matching evaluates the criteria over a collection. dontCare holds ids whose
// verdict depended on an unspecified comparison.
func (q *Query) Matching(docs map[string]map[string]any) (match map[string]bool, dontCare map[string]bool) {
	match = map[string]bool{}
	dontCare = map[string]bool{}
	for id, d := range docs {
		if q.Crit == nil {
			match[id] = true
			continue
		}
		e := &Eval{}
		ok := q.Crit.Sat(e, d)
		if e.Unspec {
			dontCare[id] = true
			continue
		}
		if ok {
			match[id] = true
		}
	}
	return
}

// sortKeyCmp compares two documents on the sort options under reading I1
// (absent == nil) or I2 (absent strictly before nil).
func sortKeyCmp(e *Eval, a, b map[string]any, opts []SortOpt, i2 bool) int {
	for _, o := range opts {
		va, ha := Lookup(a, o.Field)
		vb, hb := Lookup(b, o.Field)
		if i2 {
			if !ha && hb {
				return -o.Dir
			}
			if ha && !hb {
				return o.Dir
			}
			if !ha && !hb {
				continue
			}
		}
		if r := e.Compare(va, vb); r != 0 {
			return r * o.Dir
		}
	}
	return 0
}

// CheckResult decides whether `got` (documents in returned order) is an
// acceptable answer to q over the collection `docs`. It returns a description
// of the first problem ("" if acceptable) and whether the case is inconclusive
// (depends on unspecified comparisons).
func CheckResult(q *Query, docs map[string]map[string]any, got []map[string]any) (problem string, inconclusive bool) {
	match, dontCare := q.Matching(docs)
	opts := q.EffSort()
	windowed := q.EffSkip() > 0 || q.EffLimit() >= 0

	// membership, distinctness, content
	seen := map[string]bool{}
	for i, g := range got {
		id, _ := g["_id"].(string)
		if seen[id] {
			return fmt.Sprintf("result[%d]: document %s returned twice", i, id), false
		}
		seen[id] = true
		md, live := docs[id]
		if !live {
			return fmt.Sprintf("result[%d]: document %s is not live in the collection", i, id), false
		}
		if d := StrictDiff(md, g); d != "" {
			return fmt.Sprintf("result[%d]: document %s content differs at %s", i, id, d), false
		}
		if !match[id] && !dontCare[id] {
			return fmt.Sprintf("result[%d]: document %s does not satisfy the criteria", i, id), false
		}
	}

	if len(dontCare) > 0 && (windowed || opts != nil) {
		return "", true
	}

	if !windowed {
		for id := range match {
			if !seen[id] {
				return fmt.Sprintf("matching document %s missing from result (got %d, want %d)", id, len(got), len(match)), false
			}
		}
	}

	n := len(match)
	from, to := q.Window(n)
	if len(dontCare) == 0 && len(got) != to-from {
		return fmt.Sprintf("result has %d documents, want %d (matching %d, skip %d, limit %d)", len(got), to-from, n, q.EffSkip(), q.EffLimit()), false
	}
	if opts == nil {
		return "", false
	}

	// sorted: compare the key-tuple sequence with the window of the fully sorted matching set
	ml := make([]map[string]any, 0, n)
	for id := range match {
		ml = append(ml, docs[id])
	}
	var firstProblem string
	for _, i2 := range []bool{false, true} {
		e := &Eval{}
		sorted := append([]map[string]any(nil), ml...)
		sort.SliceStable(sorted, func(i, j int) bool { return sortKeyCmp(e, sorted[i], sorted[j], opts, i2) < 0 })
		win := sorted[from:to]
		p := ""
		for i := range win {
			if sortKeyCmp(e, win[i], got[i], opts, i2) != 0 {
				p = fmt.Sprintf("sorted result position %d: got keys %s, want keys %s", i, keyTuple(got[i], opts), keyTuple(win[i], opts))
				break
			}
		}
		if e.Unspec {
			return "", true
		}
		if p == "" {
			return "", false
		}
		if firstProblem == "" {
			firstProblem = p
		}
	}
	return firstProblem, false
}

func keyTuple(d map[string]any, opts []SortOpt) string {
	parts := make([]string, len(opts))
	for i, o := range opts {
		v, h := Lookup(d, o.Field)
		if !h {
			parts[i] = "<absent>"
		} else {
			parts[i] = Render(v)
		}
	}
	return "(" + strings.Join(parts, ",") + ")"
}

// SelectDeterministic returns the ids the query selects when that selection is
// fully determined (no window, or a sort whose keys are unique across the
// window boundary). ok=false when the selection is legitimately ambiguous.
func SelectDeterministic(q *Query, docs map[string]map[string]any) (ids []string, ok bool, inconclusive bool) {
	match, dontCare := q.Matching(docs)
	if len(dontCare) > 0 {
		return nil, false, true
	}
	opts := q.EffSort()
	windowed := q.EffSkip() > 0 || q.EffLimit() >= 0
	all := make([]string, 0, len(match))
	for id := range match {
		all = append(all, id)
	}
	sort.Strings(all)
	if !windowed {
		return all, true, false
	}
	from, to := q.Window(len(all))
	if from == 0 && to == len(all) {
		return all, true, false
	}
	if opts == nil {
		return nil, false, false
	}
	e := &Eval{}
	// ambiguity must be judged under both readings; require agreement of I1 and I2
	var sel [2][]string
	for k, i2 := range []bool{false, true} {
		sorted := append([]string(nil), all...)
		sort.SliceStable(sorted, func(i, j int) bool { return sortKeyCmp(e, docs[sorted[i]], docs[sorted[j]], opts, i2) < 0 })
		// boundary ties make the selection ambiguous
		if from > 0 && from < len(sorted) && sortKeyCmp(e, docs[sorted[from-1]], docs[sorted[from]], opts, i2) == 0 {
			return nil, false, e.Unspec
		}
		if to > 0 && to < len(sorted) && sortKeyCmp(e, docs[sorted[to-1]], docs[sorted[to]], opts, i2) == 0 {
			return nil, false, e.Unspec
		}
		s := append([]string(nil), sorted[from:to]...)
		sort.Strings(s)
		sel[k] = s
	}
	if e.Unspec {
		return nil, false, true
	}
	if strings.Join(sel[0], ",") != strings.Join(sel[1], ",") {
		return nil, false, false
	}
	return sel[0], true, false
}
