package model

import (
	"sort"
	"time"
)

// Coll is the model of one collection.
type Coll struct {
	Docs    map[string]map[string]any
	Indexes map[string]bool
}

func NewColl() *Coll {
	return &Coll{Docs: map[string]map[string]any{}, Indexes: map[string]bool{}}
}

func (c *Coll) Clone() *Coll {
	n := NewColl()
	for id, d := range c.Docs {
		n.Docs[id] = CopyDoc(d)
	}
	for f := range c.Indexes {
		n.Indexes[f] = true
	}
	return n
}

func (c *Coll) IDs() []string {
	ids := make([]string, 0, len(c.Docs))
	for id := range c.Docs {
		ids = append(ids, id)
	}
	sort.Strings(ids)
	return ids
}

func (c *Coll) IndexList() []string {
	fs := make([]string, 0, len(c.Indexes))
	for f := range c.Indexes {
		fs = append(fs, f)
	}
	sort.Strings(fs)
	return fs
}

// DocList returns the documents in id order.
func (c *Coll) DocList() []map[string]any {
	out := make([]map[string]any, 0, len(c.Docs))
	for _, id := range c.IDs() {
		out = append(out, c.Docs[id])
	}
	return out
}

// DB is the model of a database.
type DB struct {
	Colls map[string]*Coll
}

func NewDB() *DB { return &DB{Colls: map[string]*Coll{}} }

func (d *DB) Names() []string {
	ns := make([]string, 0, len(d.Colls))
	for n := range d.Colls {
		ns = append(ns, n)
	}
	sort.Strings(ns)
	return ns
}

func (d *DB) Clone() *DB {
	n := NewDB()
	for k, c := range d.Colls {
		n.Colls[k] = c.Clone()
	}
	return n
}

// ValidUUID is an independent check for the canonical 36-character form.
func ValidUUID(s string) bool {
	if len(s) != 36 {
		return false
	}
	for i := 0; i < 36; i++ {
		ch := s[i]
		switch i {
		case 8, 13, 18, 23:
			if ch != '-' {
				return false
			}
		default:
			if !((ch >= '0' && ch <= '9') || (ch >= 'a' && ch <= 'f') || (ch >= 'A' && ch <= 'F')) {
				return false
			}
		}
	}
	return true
}

// ValidDoc tells whether clover must accept the document (canonical _id, and
// _expiresAt absent or a time).
func ValidDoc(d map[string]any) bool {
	id, ok := d["_id"].(string)
	if !ok || !ValidUUID(id) {
		return false
	}
	if v, has := d["_expiresAt"]; has {
		if !isTime(v) {
			return false
		}
	}
	return true
}

func isTime(v any) bool {
	_, ok := v.(time.Time)
	return ok
}
