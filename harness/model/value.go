// Package model is the reference model: an independent, deliberately naive
// implementation of clover's documented semantics. It is only ever used as the
// expected value next to a value observed on the real code.
package model

import (
	"bytes"
	"fmt"
	"hash/fnv"
	"math"
	"sort"
	"strings"
	"time"
)

// Eval carries the "unspecified comparison" flag through an evaluation.
// Comparing an integer beyond 2^53 with a float is outside the properties'
// quantifier (C10); a verdict that depended on one is "don't care".
type Eval struct {
	Unspec bool
}

const maxExact = int64(1) << 53

// Rank is the documented type ranking nil < number < string < object < array < bool < time.
func Rank(v any) int {
	switch v.(type) {
	case nil:
		return 0
	case int64, uint64, float64:
		return 1
	case string:
		return 2
	case map[string]any:
		return 3
	case []any:
		return 4
	case bool:
		return 5
	case time.Time:
		return 6
	}
	panic(fmt.Sprintf("model: non-canonical value %T", v))
}

func sign(i int) int {
	if i < 0 {
		return -1
	}
	if i > 0 {
		return 1
	}
	return 0
}

func cmpFloat(a, b float64) int {
	if a < b {
		return -1
	}
	if a > b {
		return 1
	}
	return 0
}

func intExact(v any) bool {
	switch n := v.(type) {
	case int64:
		return n >= -maxExact && n <= maxExact
	case uint64:
		return n <= uint64(maxExact)
	}
	return true
}

func toF(v any) float64 {
	switch n := v.(type) {
	case int64:
		return float64(n)
	case uint64:
		return float64(n)
	case float64:
		return n
	}
	panic("not a number")
}

func (e *Eval) cmpNumbers(a, b any) int {
	_, af := a.(float64)
	_, bf := b.(float64)
	if af || bf {
		if (af && math.IsNaN(a.(float64))) || (bf && math.IsNaN(b.(float64))) {
			e.Unspec = true
			return 0
		}
		if !intExact(a) || !intExact(b) {
			e.Unspec = true
		}
		return cmpFloat(toF(a), toF(b))
	}
	switch x := a.(type) {
	case int64:
		switch y := b.(type) {
		case int64:
			if x < y {
				return -1
			} else if x > y {
				return 1
			}
			return 0
		case uint64:
			if x < 0 {
				return -1
			}
			ux := uint64(x)
			if ux < y {
				return -1
			} else if ux > y {
				return 1
			}
			return 0
		}
	case uint64:
		switch y := b.(type) {
		case uint64:
			if x < y {
				return -1
			} else if x > y {
				return 1
			}
			return 0
		case int64:
			if y < 0 {
				return 1
			}
			uy := uint64(y)
			if x < uy {
				return -1
			} else if x > uy {
				return 1
			}
			return 0
		}
	}
	panic("not numbers")
}

// Compare is the documented total preorder; result in {-1,0,1}.
func (e *Eval) Compare(a, b any) int {
	ra, rb := Rank(a), Rank(b)
	if ra != rb {
		return sign(ra - rb)
	}
	switch x := a.(type) {
	case nil:
		return 0
	case int64, uint64, float64:
		return e.cmpNumbers(a, b)
	case string:
		return sign(strings.Compare(x, b.(string)))
	case bool:
		y := b.(bool)
		if x == y {
			return 0
		}
		if !x {
			return -1
		}
		return 1
	case time.Time:
		y := b.(time.Time)
		if x.Before(y) {
			return -1
		}
		if x.After(y) {
			return 1
		}
		return 0
	case []any:
		y := b.([]any)
		for i := 0; i < len(x) && i < len(y); i++ {
			if r := e.Compare(x[i], y[i]); r != 0 {
				return r
			}
		}
		return sign(len(x) - len(y))
	case map[string]any:
		y := b.(map[string]any)
		kx, ky := SortedKeys(x), SortedKeys(y)
		for i := 0; i < len(kx) && i < len(ky); i++ {
			if r := strings.Compare(kx[i], ky[i]); r != 0 {
				return sign(r)
			}
			if r := e.Compare(x[kx[i]], y[ky[i]]); r != 0 {
				return r
			}
		}
		return sign(len(x) - len(y))
	}
	panic("unreachable")
}

// Compare without context (flags ignored).
func Compare(a, b any) int { return (&Eval{}).Compare(a, b) }

func SortedKeys(m map[string]any) []string {
	ks := make([]string, 0, len(m))
	for k := range m {
		ks = append(ks, k)
	}
	sort.Strings(ks)
	return ks
}

// DeepCopy copies maps and slices recursively.
func DeepCopy(v any) any {
	switch x := v.(type) {
	case map[string]any:
		m := make(map[string]any, len(x))
		for k, e := range x {
			m[k] = DeepCopy(e)
		}
		return m
	case []any:
		s := make([]any, len(x))
		for i, e := range x {
			s[i] = DeepCopy(e)
		}
		return s
	}
	return v
}

func CopyDoc(m map[string]any) map[string]any { return DeepCopy(m).(map[string]any) }

// StrictDiff reports the first path at which two canonical values differ in Go
// type or value ("" if identical). Times: same instant and same zone offset.
func StrictDiff(want, got any) string { return strictDiff("", want, got) }

func strictDiff(path string, a, b any) string {
	switch x := a.(type) {
	case nil:
		if b != nil {
			return fmt.Sprintf("%s: want nil, got %T(%v)", path, b, b)
		}
		return ""
	case int64:
		y, ok := b.(int64)
		if !ok || x != y {
			return fmt.Sprintf("%s: want int64(%d), got %T(%v)", path, x, b, b)
		}
		return ""
	case uint64:
		y, ok := b.(uint64)
		if !ok || x != y {
			return fmt.Sprintf("%s: want uint64(%d), got %T(%v)", path, x, b, b)
		}
		return ""
	case float64:
		y, ok := b.(float64)
		if !ok || !(x == y || (math.IsNaN(x) && math.IsNaN(y))) || math.Signbit(x) != math.Signbit(y) {
			return fmt.Sprintf("%s: want float64(%v), got %T(%v)", path, x, b, b)
		}
		return ""
	case string:
		y, ok := b.(string)
		if !ok || x != y {
			return fmt.Sprintf("%s: want string(%q), got %T(%v)", path, x, b, b)
		}
		return ""
	case bool:
		y, ok := b.(bool)
		if !ok || x != y {
			return fmt.Sprintf("%s: want bool(%v), got %T(%v)", path, x, b, b)
		}
		return ""
	case time.Time:
		y, ok := b.(time.Time)
		if !ok {
			return fmt.Sprintf("%s: want time.Time(%v), got %T(%v)", path, x, b, b)
		}
		_, ox := x.Zone()
		_, oy := y.Zone()
		if !x.Equal(y) || ox != oy {
			return fmt.Sprintf("%s: want time %v (offset %d), got %v (offset %d)", path, x.UnixNano(), ox, y.UnixNano(), oy)
		}
		return ""
	case []any:
		y, ok := b.([]any)
		if !ok {
			return fmt.Sprintf("%s: want []any, got %T(%v)", path, b, b)
		}
		if len(x) != len(y) {
			return fmt.Sprintf("%s: want len %d, got len %d", path, len(x), len(y))
		}
		for i := range x {
			if d := strictDiff(fmt.Sprintf("%s[%d]", path, i), x[i], y[i]); d != "" {
				return d
			}
		}
		return ""
	case map[string]any:
		y, ok := b.(map[string]any)
		if !ok {
			return fmt.Sprintf("%s: want map, got %T(%v)", path, b, b)
		}
		for k, v := range x {
			w, has := y[k]
			if !has {
				return fmt.Sprintf("%s.%s: missing", path, k)
			}
			if d := strictDiff(path+"."+k, v, w); d != "" {
				return d
			}
		}
		for k := range y {
			if _, has := x[k]; !has {
				return fmt.Sprintf("%s.%s: unexpected", path, k)
			}
		}
		return ""
	}
	return fmt.Sprintf("%s: non-canonical expected value %T", path, a)
}

// Render gives a compact, type-preserving textual form of a value.
func Render(v any) string {
	var b bytes.Buffer
	render(&b, v)
	return b.String()
}

func render(b *bytes.Buffer, v any) {
	switch x := v.(type) {
	case nil:
		b.WriteString("nil")
	case int64:
		fmt.Fprintf(b, "i%d", x)
	case uint64:
		fmt.Fprintf(b, "u%d", x)
	case float64:
		fmt.Fprintf(b, "f%v", x)
	case string:
		if len(x) > 96 {
			// long strings are abbreviated; the hash keeps distinct strings distinct in every rendering
			h := fnv.New32a()
			h.Write([]byte(x))
			fmt.Fprintf(b, "%q..<%d bytes #%08x>..%q", x[:12], len(x), h.Sum32(), x[len(x)-6:])
		} else {
			fmt.Fprintf(b, "%q", x)
		}
	case bool:
		fmt.Fprintf(b, "%v", x)
	case time.Time:
		_, off := x.Zone()
		fmt.Fprintf(b, "t(%d,%d)", x.UnixNano(), off)
	case []any:
		b.WriteByte('[')
		for i, e := range x {
			if i > 0 {
				b.WriteByte(',')
			}
			render(b, e)
		}
		b.WriteByte(']')
	case map[string]any:
		b.WriteByte('{')
		for i, k := range SortedKeys(x) {
			if i > 0 {
				b.WriteByte(',')
			}
			fmt.Fprintf(b, "%q:", k)
			render(b, x[k])
		}
		b.WriteByte('}')
	default:
		fmt.Fprintf(b, "<%T %v>", v, v)
	}
}

// Path access --------------------------------------------------------------

// Lookup descends through maps along a dotted path.
func Lookup(doc map[string]any, path string) (any, bool) {
	parts := strings.Split(path, ".")
	cur := doc
	for i, p := range parts {
		v, ok := cur[p]
		if !ok {
			return nil, false
		}
		if i == len(parts)-1 {
			return v, true
		}
		m, isMap := v.(map[string]any)
		if !isMap {
			return nil, false
		}
		cur = m
	}
	return nil, false
}

func Get(doc map[string]any, path string) any {
	v, _ := Lookup(doc, path)
	return v
}

func Has(doc map[string]any, path string) bool {
	_, ok := Lookup(doc, path)
	return ok
}

// SetPath sets a dotted path, creating (or replacing non-map values by)
// intermediate maps.
func SetPath(doc map[string]any, path string, v any) {
	parts := strings.Split(path, ".")
	cur := doc
	for i, p := range parts {
		if i == len(parts)-1 {
			cur[p] = v
			return
		}
		m, isMap := cur[p].(map[string]any)
		if !isMap {
			m = map[string]any{}
			cur[p] = m
		}
		cur = m
	}
}
