// Package core is the plumbing shared by all engines: per-case context,
// result aggregation, worker and coordinator.
package core

import (
	"encoding/json"
	"fmt"
	"sort"
	"sync"
	"sync/atomic"

	"verif/harness/gen"
)

// Violation is one observed contradiction between the code and an oracle.
type Violation struct {
	Property  string   `json:"property"`
	Engine    string   `json:"engine"`
	Tier      string   `json:"tier"`
	Seed      uint64   `json:"seed"`
	Case      int      `json:"case"`
	Backend   string   `json:"backend,omitempty"`
	What      string   `json:"what"`
	Signature string   `json:"signature"`
	History   []string `json:"history,omitempty"`
	Detail    string   `json:"detail,omitempty"`
}

// Progress is bumped by every public API call and store call; the stall
// detector watches it.
var Progress uint64

func Tick() { atomic.AddUint64(&Progress, 1) }

// Result is what one worker (or the aggregate) reports.
type Result struct {
	Evals        int64            `json:"evals"`
	Cells        map[string]int64 `json:"cells"`
	Counters     map[string]int64 `json:"counters"`
	Inconclusive map[string]int64 `json:"inconclusive"`
	Samples      []any            `json:"samples"`
	Violations   []Violation      `json:"violations"`
	CasesRun     int64            `json:"cases_run"`
	Exhaustive   map[string]bool  `json:"exhaustive,omitempty"`
}

func NewResult() *Result {
	return &Result{Cells: map[string]int64{}, Counters: map[string]int64{}, Inconclusive: map[string]int64{}, Exhaustive: map[string]bool{}}
}

func (r *Result) Merge(o *Result) {
	r.Evals += o.Evals
	r.CasesRun += o.CasesRun
	for k, v := range o.Cells {
		r.Cells[k] += v
	}
	for k, v := range o.Counters {
		r.Counters[k] += v
	}
	for k, v := range o.Inconclusive {
		r.Inconclusive[k] += v
	}
	for k, v := range o.Exhaustive {
		if prev, ok := r.Exhaustive[k]; ok {
			r.Exhaustive[k] = prev && v
		} else {
			r.Exhaustive[k] = v
		}
	}
	for _, s := range o.Samples {
		if len(r.Samples) < 8 {
			r.Samples = append(r.Samples, s)
		}
	}
	r.Violations = append(r.Violations, o.Violations...)
}

// Ctx is handed to an engine for one case.
type Ctx struct {
	Prop    string
	Engine  string
	Tier    string
	Seed    uint64 // run seed
	Case    int
	R       *gen.Rng
	Scratch string // private scratch directory of the worker (tmpfs when available)

	mu  sync.Mutex
	res *Result
	// History of the current case (rendered operations), for replay files.
	Hist    []string
	Backend string
	// CapacityHit: an operation of this case was refused by the store for its size (badger's transaction limit);
	// the case ends there as inconclusive
	CapacityHit bool
}

func (c *Ctx) Thorough() bool { return c.Tier == "thorough" }

func (c *Ctx) Eval(n int) {
	c.mu.Lock()
	c.res.Evals += int64(n)
	c.mu.Unlock()
}

// Cell records a distinct non-trivial coverage cell.
func (c *Ctx) Cell(format string, args ...any) {
	k := fmt.Sprintf(format, args...)
	c.mu.Lock()
	c.res.Cells[k]++
	c.mu.Unlock()
}

func (c *Ctx) Count(name string, n int) {
	c.mu.Lock()
	c.res.Counters[name] += int64(n)
	c.mu.Unlock()
}

func (c *Ctx) Inconclusive(kind string) {
	c.mu.Lock()
	c.res.Inconclusive[kind]++
	c.mu.Unlock()
}

func (c *Ctx) Exhaustive(name string, ok bool) {
	c.mu.Lock()
	if prev, has := c.res.Exhaustive[name]; has {
		c.res.Exhaustive[name] = prev && ok
	} else {
		c.res.Exhaustive[name] = ok
	}
	c.mu.Unlock()
}

// Sample keeps a few actual cases for the evidence file.
func (c *Ctx) Sample(v any) {
	c.mu.Lock()
	if len(c.res.Samples) < 3 {
		c.res.Samples = append(c.res.Samples, v)
	}
	c.mu.Unlock()
}

func (c *Ctx) Log(format string, args ...any) {
	s := fmt.Sprintf(format, args...)
	c.mu.Lock()
	c.Hist = append(c.Hist, s)
	c.mu.Unlock()
}

// Violate records a violation of the property being checked.
func (c *Ctx) Violate(signature, format string, args ...any) {
	c.mu.Lock()
	defer c.mu.Unlock()
	if len(c.res.Violations) >= 20 {
		return
	}
	h := c.Hist
	if len(h) > 400 {
		h = append([]string{fmt.Sprintf("... %d earlier operations elided ...", len(h)-400)}, h[len(h)-400:]...)
	}
	c.res.Violations = append(c.res.Violations, Violation{
		Property:  c.Prop,
		Engine:    c.Engine,
		Tier:      c.Tier,
		Seed:      c.Seed,
		Case:      c.Case,
		Backend:   c.Backend,
		What:      fmt.Sprintf(format, args...),
		Signature: signature,
		History:   append([]string(nil), h...),
	})
}

func (c *Ctx) NumViolations() int {
	c.mu.Lock()
	defer c.mu.Unlock()
	return len(c.res.Violations)
}

// TopCells returns the cell names sorted.
func TopCells(m map[string]int64, n int) []string {
	ks := make([]string, 0, len(m))
	for k := range m {
		ks = append(ks, k)
	}
	sort.Strings(ks)
	if len(ks) > n {
		ks = ks[:n]
	}
	return ks
}

func ToJSON(v any) string {
	b, _ := json.Marshal(v)
	return string(b)
}

// Sub returns a context with a private result (used to try a candidate
// explanation without committing its violations to the run).
func (c *Ctx) Sub() *Ctx {
	return &Ctx{Prop: c.Prop, Engine: c.Engine, Tier: c.Tier, Seed: c.Seed, Case: c.Case, R: c.R, Scratch: c.Scratch, res: NewResult(), Backend: c.Backend}
}

func (c *Ctx) FirstViolation() string {
	c.mu.Lock()
	defer c.mu.Unlock()
	if len(c.res.Violations) == 0 {
		return ""
	}
	return c.res.Violations[0].What
}
