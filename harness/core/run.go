package core

import (
	"encoding/json"
	"fmt"
	"hash/fnv"
	"os"
	"os/exec"
	"path/filepath"
	"runtime"
	"runtime/debug"
	"sort"
	"strings"
	"sync"
	"sync/atomic"
	"syscall"
	"time"

	"verif/harness/gen"
	"verif/harness/model"
)

type Engine struct {
	Name string
	Run  func(c *Ctx)
}

type Use struct {
	E        *Engine
	Quick    int
	Thorough int
	Race     bool // run these cases in the -race build as well
}

type PropSpec struct {
	ID          string
	Level       string
	Rule        string
	Assumptions []string
	Uses        []Use
}

var Registry = map[string]*PropSpec{}

func Register(p *PropSpec) { Registry[p.ID] = p }

func hashName(s string) uint64 {
	h := fnv.New64a()
	h.Write([]byte(s))
	return h.Sum64()
}

type caseRef struct {
	use  int
	idx  int
	race bool
}

func caseList(p *PropSpec, tier string, race bool) []caseRef {
	var out []caseRef
	for ui, u := range p.Uses {
		if race && !u.Race {
			continue
		}
		n := u.Quick
		if tier == "thorough" {
			n = u.Thorough
		}
		if race {
			// the race build is 5-10x slower: a quarter of the cases
			n = (n + 3) / 4
		}
		for i := 0; i < n; i++ {
			out = append(out, caseRef{ui, i, race})
		}
	}
	return out
}

func ScratchBase() string {
	if s := os.Getenv("VERIF_SCRATCH"); s != "" {
		return s
	}
	if st, err := os.Stat("/dev/shm"); err == nil && st.IsDir() {
		return "/dev/shm"
	}
	return os.TempDir()
}

// RunCase executes one case in-process, converting a panic into a violation.
func RunCase(p *PropSpec, tier string, seed uint64, use int, idx int, scratch string, res *Result, race bool) {
	u := p.Uses[use]
	salt := uint64(0)
	if race {
		salt = 0x5ace
	}
	c := &Ctx{
		Prop: p.ID, Engine: u.E.Name, Tier: tier, Seed: seed, Case: idx,
		R:       gen.New(gen.Mix(seed, hashName(p.ID), hashName(u.E.Name), uint64(idx), salt)),
		Scratch: scratch, res: res,
	}
	model.ResetGenerated()
	defer func() {
		if r := recover(); r != nil {
			st := string(debug.Stack())
			c.Log("PANIC: %v", r)
			c.Violate("panic:"+panicSite(st), "panic during case: %v\n%s", r, trimStack(st))
		}
	}()
	u.E.Run(c)
	res.CasesRun++
	if f := os.Getenv("VERIF_DUMP_HISTORY"); f != "" {
		// diagnosis only: the rendered history of the case, whatever its verdict
		os.WriteFile(f, []byte(strings.Join(c.Hist, "\n")+"\n"), 0644)
	}
}

// panicSite extracts the first clover frame of a stack (for signatures).
func panicSite(st string) string {
	lines := strings.Split(st, "\n")
	seenPanic := false
	for _, l := range lines {
		if strings.HasPrefix(l, "panic(") {
			seenPanic = true
			continue
		}
		if seenPanic && strings.Contains(l, "github.com/ostafen/clover") && !strings.HasPrefix(l, "\t") {
			if i := strings.LastIndex(l, "("); i > 0 {
				l = l[:i]
			}
			return l
		}
	}
	return "unknown"
}

func trimStack(st string) string {
	lines := strings.Split(st, "\n")
	if len(lines) > 40 {
		lines = lines[:40]
	}
	return strings.Join(lines, "\n")
}

// Worker runs the cases of one shard and writes the result file.
func Worker(prop, tier string, seed uint64, shard, nshards int, out string, race bool) int {
	p := Registry[prop]
	if p == nil {
		fmt.Fprintf(os.Stderr, "unknown property %s\n", prop)
		return 2
	}
	scratch, err := os.MkdirTemp(ScratchBase(), "vcheck-"+prop+"-")
	if err != nil {
		fmt.Fprintln(os.Stderr, err)
		return 2
	}
	defer os.RemoveAll(scratch)
	res := NewResult()
	cases := caseList(p, tier, race)
	progressFile := out + ".progress"

	var current atomic.Value
	current.Store("")
	done := make(chan struct{})
	go stallDetector(done, &current, out, res, p.ID, tier, seed)

	for i, cr := range cases {
		if i%nshards != shard {
			continue
		}
		desc := fmt.Sprintf("%s %d", p.Uses[cr.use].E.Name, cr.idx)
		current.Store(desc)
		os.WriteFile(progressFile, []byte(desc), 0644)
		Tick()
		RunCase(p, tier, seed, cr.use, cr.idx, scratch, res, race)
	}
	close(done)
	b, _ := json.Marshal(res)
	if err := os.WriteFile(out, b, 0644); err != nil {
		fmt.Fprintln(os.Stderr, err)
		return 2
	}
	return 0
}

func cpuTime() time.Duration {
	var ru syscall.Rusage
	syscall.Getrusage(syscall.RUSAGE_SELF, &ru)
	return time.Duration(ru.Utime.Nano() + ru.Stime.Nano())
}

// stallDetector decides "blocked forever" on logical evidence: an outstanding
// case, no API/store progress, and no CPU time consumed.
func stallDetector(done chan struct{}, current *atomic.Value, out string, res *Result, prop, tier string, seed uint64) {
	last := atomic.LoadUint64(&Progress)
	lastCPU := cpuTime()
	idle := 0
	t := time.NewTicker(5 * time.Second)
	defer t.Stop()
	for {
		select {
		case <-done:
			return
		case <-t.C:
		}
		now := atomic.LoadUint64(&Progress)
		cpu := cpuTime()
		busy := cpu-lastCPU > 400*time.Millisecond // per 5 s interval: background goroutines of the stores use far less
		lastCPU = cpu
		if now != last || busy {
			last, idle = now, 0
			continue
		}
		idle++
		if idle >= 18 { // 90 s without any progress and without CPU use
			buf := make([]byte, 1<<20)
			n := runtime.Stack(buf, true)
			fmt.Fprintf(os.Stderr, "STALL in %v\n%s\n", current.Load(), buf[:n])
			desc, _ := current.Load().(string)
			v := Violation{Property: prop, Engine: strings.Fields(desc + " ?")[0], Tier: tier, Seed: seed,
				What:      "operation blocked: no store/API progress and no CPU time for 90 s while a case was outstanding (" + desc + ")",
				Signature: "stall", Detail: string(buf[:min(n, 6000)])}
			fmt.Sscanf(desc, "%s %d", &v.Engine, &v.Case)
			res.Violations = append(res.Violations, v)
			b, _ := json.Marshal(res)
			os.WriteFile(out, b, 0644)
			os.Exit(3)
		}
	}
}

// ------------------------------------------------------------ coordinator

type KnownFinding struct {
	Status    string `json:"status"` // "known" | "fixed"
	Property  string `json:"property"`
	ID        string `json:"id"`
	Commit    string `json:"commit,omitempty"`
	Signature string `json:"signature"`
	What      string `json:"what"`
}

type knownFile struct {
	Findings []KnownFinding `json:"findings"`
}

func loadKnown(verifDir string) []KnownFinding {
	b, err := os.ReadFile(filepath.Join(verifDir, "known_findings.json"))
	if err != nil {
		return nil
	}
	var kf knownFile
	if json.Unmarshal(b, &kf) != nil {
		return nil
	}
	return kf.Findings
}

type CoordOpts struct {
	Prop     string
	Tier     string
	Seed     uint64
	VerifDir string
	WorkDir  string
	Bin      string // plain binary
	RaceBin  string // -race binary ("" = none)
	Jobs     int
}

// PostRun lets a property add evidence from outside the workers (race logs).
var PostRun = map[string]func(o CoordOpts, agg *Result){}

func Coordinate(o CoordOpts) int {
	start := time.Now()
	p := Registry[o.Prop]
	if p == nil {
		fmt.Printf("unknown property %s\n", o.Prop)
		return 2
	}
	if o.Jobs <= 0 {
		o.Jobs = runtime.NumCPU()
	}
	agg := NewResult()
	type job struct {
		race   bool
		shard  int
		n      int
		out    string
		cmd    *exec.Cmd
		logf   string
		killed bool
	}
	var jobs []*job
	mk := func(race bool) {
		cases := caseList(p, o.Tier, race)
		if len(cases) == 0 {
			return
		}
		n := o.Jobs
		if len(cases) < n {
			n = len(cases)
		}
		for s := 0; s < n; s++ {
			tag := "w"
			if race {
				tag = "r"
			}
			jobs = append(jobs, &job{race: race, shard: s, n: n, out: filepath.Join(o.WorkDir, fmt.Sprintf("%s%d.json", tag, s))})
		}
	}
	mk(false)
	if o.RaceBin != "" {
		mk(true)
	}
	watchdog := 20 * time.Minute
	if o.Tier == "thorough" {
		watchdog = 120 * time.Minute
	}
	// all workers put their scratch databases below one directory that the coordinator removes, whatever happens to them
	scratchRoot, err := os.MkdirTemp(ScratchBase(), "vcheck-run-"+o.Prop+"-")
	if err == nil {
		defer os.RemoveAll(scratchRoot)
	} else {
		scratchRoot = ScratchBase()
	}
	sem := make(chan struct{}, o.Jobs)
	var wg sync.WaitGroup
	for _, j := range jobs {
		j := j
		wg.Add(1)
		go func() {
			defer wg.Done()
			sem <- struct{}{}
			defer func() { <-sem }()
			bin := o.Bin
			if j.race {
				bin = o.RaceBin
			}
			args := []string{"worker", "-prop", o.Prop, "-tier", o.Tier, "-seed", fmt.Sprint(o.Seed),
				"-shard", fmt.Sprint(j.shard), "-nshards", fmt.Sprint(j.n), "-out", j.out}
			if j.race {
				args = append(args, "-race")
			}
			j.cmd = exec.Command(bin, args...)
			j.logf = j.out + ".log"
			lf, _ := os.Create(j.logf)
			j.cmd.Stdout = lf
			j.cmd.Stderr = lf
			j.cmd.Env = append(os.Environ(), "VERIF_WORKDIR="+o.WorkDir, "VERIF_SCRATCH="+scratchRoot)
			if j.race {
				j.cmd.Env = append(j.cmd.Env, "GORACE=halt_on_error=0 log_path="+filepath.Join(o.WorkDir, fmt.Sprintf("race.%d", j.shard)))
			}
			if err := j.cmd.Start(); err != nil {
				fmt.Fprintln(lf, "start:", err)
				lf.Close()
				return
			}
			timer := time.AfterFunc(watchdog, func() {
				j.killed = true
				j.cmd.Process.Signal(syscall.SIGQUIT)
				time.Sleep(2 * time.Second)
				j.cmd.Process.Kill()
			})
			j.cmd.Wait()
			timer.Stop()
			lf.Close()
		}()
	}
	wg.Wait()

	for _, j := range jobs {
		b, err := os.ReadFile(j.out)
		var r Result
		if err == nil && json.Unmarshal(b, &r) == nil {
			if r.Cells == nil {
				r.Cells = map[string]int64{}
			}
			agg.Merge(&r)
			continue
		}
		if j.killed {
			agg.Inconclusive["watchdog"]++
			continue
		}
		// the worker died without a verdict: process-fatal failure
		prog, _ := os.ReadFile(j.out + ".progress")
		logb, _ := os.ReadFile(j.logf)
		tail := string(logb)
		if len(tail) > 6000 {
			tail = tail[:3000] + "\n...\n" + tail[len(tail)-3000:]
		}
		v := Violation{Property: o.Prop, Tier: o.Tier, Seed: o.Seed,
			What:      "worker process died without a verdict while running case: " + string(prog),
			Signature: "worker-death", Detail: tail}
		fmt.Sscanf(string(prog), "%s %d", &v.Engine, &v.Case)
		agg.Violations = append(agg.Violations, v)
	}

	if f := PostRun[o.Prop]; f != nil {
		f(o, agg)
	}

	// known findings
	known := loadKnown(o.VerifDir)
	var real []Violation
	knownHit := map[string]bool{}
	for _, v := range agg.Violations {
		matched := false
		for _, k := range known {
			if k.Status == "known" && k.Property == v.Property && k.Signature == v.Signature {
				matched = true
				if !knownHit[k.ID] {
					knownHit[k.ID] = true
					fmt.Printf("KNOWN-FINDING: property=%s %s: %s\n", k.Property, k.ID, k.What)
				}
			}
		}
		if !matched {
			real = append(real, v)
		}
	}

	// replays
	os.MkdirAll(filepath.Join(o.VerifDir, "replays"), 0755)
	sigSeen := map[string]int{}
	for i, v := range real {
		sigSeen[v.Signature]++
		if sigSeen[v.Signature] > 3 || i > 12 {
			continue
		}
		path := filepath.Join(o.VerifDir, "replays", fmt.Sprintf("%s-%d-%d.json", o.Prop, o.Seed, i))
		b, _ := json.MarshalIndent(v, "", " ")
		os.WriteFile(path, b, 0644)
		fmt.Printf("VIOLATION property=%s replay=%s\n", o.Prop, path)
		fmt.Printf("  engine=%s case=%d backend=%s signature=%s\n  %s\n", v.Engine, v.Case, v.Backend, v.Signature, firstLines(v.What, 6))
	}

	if len(real) > 0 {
		hist := map[string]int{}
		for _, v := range real {
			hist[v.Signature]++
		}
		sigs := make([]string, 0, len(hist))
		for k := range hist {
			sigs = append(sigs, k)
		}
		sort.Slice(sigs, func(i, j int) bool { return hist[sigs[i]] > hist[sigs[j]] })
		fmt.Println("violation signatures:")
		for _, k := range sigs {
			fmt.Printf("  %5d  %s\n", hist[k], k)
		}
	}
	wall := time.Since(start).Seconds()
	writeEvidence(o, p, agg, len(real), knownHit, wall)

	cellsN := len(agg.Cells)
	fmt.Printf("%s %s seed=%d: cases=%d evaluations=%d distinct_cells=%d violations=%d known=%d inconclusive=%v wall=%.1fs\n",
		o.Prop, o.Tier, o.Seed, agg.CasesRun, agg.Evals, cellsN, len(real), len(knownHit), agg.Inconclusive, wall)
	if len(real) > 0 {
		return 1
	}
	if agg.Evals == 0 || cellsN < 2 {
		fmt.Printf("INCONCLUSIVE: the run observed nothing (evaluations=%d, cells=%d)\n", agg.Evals, cellsN)
		return 3
	}
	return 0
}

func firstLines(s string, n int) string {
	l := strings.Split(s, "\n")
	if len(l) > n {
		l = l[:n]
	}
	return strings.Join(l, "\n  ")
}

func writeEvidence(o CoordOpts, p *PropSpec, agg *Result, nviol int, knownHit map[string]bool, wall float64) {
	cells := make([]string, 0, len(agg.Cells))
	for k := range agg.Cells {
		cells = append(cells, k)
	}
	sort.Strings(cells)
	cellSample := cells
	if len(cellSample) > 60 {
		step := len(cells) / 60
		cellSample = nil
		for i := 0; i < len(cells); i += step {
			cellSample = append(cellSample, cells[i])
		}
	}
	samples := agg.Samples
	if len(samples) == 0 {
		samples = []any{"(no sample recorded)"}
	}
	cov := map[string]any{
		"evaluations":         agg.Evals,
		"distinct_nontrivial": len(agg.Cells),
		"rule":                p.Rule,
		"samples":             samples,
		"cases_run":           agg.CasesRun,
		"counters":            agg.Counters,
		"inconclusive":        agg.Inconclusive,
		"cells_sample":        cellSample,
	}
	if len(agg.Exhaustive) > 0 {
		all := true
		for _, v := range agg.Exhaustive {
			all = all && v
		}
		cov["exhaustive"] = all
		cov["exhaustive_parts"] = agg.Exhaustive
	}
	kh := []string{}
	for k := range knownHit {
		kh = append(kh, k)
	}
	sort.Strings(kh)
	cov["known_findings_reproduced"] = kh
	ev := map[string]any{
		"property_id": o.Prop,
		"tier":        o.Tier,
		"seed":        int64(o.Seed & 0x7fffffffffffffff),
		"level":       p.Level,
		"coverage":    cov,
		"assumptions": p.Assumptions,
		"wall_s":      wall,
		"violations":  nviol,
	}
	os.MkdirAll(filepath.Join(o.VerifDir, "evidence"), 0755)
	b, _ := json.MarshalIndent(ev, "", " ")
	os.WriteFile(filepath.Join(o.VerifDir, "evidence", o.Prop+".json"), b, 0644)
}

// Replay re-executes the case a violation record names and reports whether it
// still fails.
func Replay(v *Violation, dir string) int {
	p := Registry[v.Property]
	if p == nil {
		fmt.Println("unknown property", v.Property)
		return 2
	}
	use := -1
	for i, u := range p.Uses {
		if u.E.Name == v.Engine {
			use = i
		}
	}
	if use < 0 {
		fmt.Println("unknown engine", v.Engine)
		return 2
	}
	scratch, err := os.MkdirTemp(ScratchBase(), "vreplay-")
	if err != nil {
		fmt.Println(err)
		return 2
	}
	defer os.RemoveAll(scratch)
	res := NewResult()
	RunCase(p, v.Tier, v.Seed, use, v.Case, scratch, res, false)
	if len(res.Violations) == 0 {
		fmt.Printf("replay: case %s/%s/%d holds now (%d evaluations)\n", v.Property, v.Engine, v.Case, res.Evals)
		return 0
	}
	for _, x := range res.Violations {
		fmt.Printf("VIOLATION property=%s replay=%s\n  %s\n", x.Property, "(replayed)", firstLines(x.What, 12))
		for _, h := range x.History {
			fmt.Println("   ", h)
		}
	}
	return 1
}
