#!/bin/bash
# Re-runs, with the harness as it stands, the target check of every round-5 seeded change (I/J).
cd "$(dirname "$0")/.."
for d in seeded/C??-[IJ]; do
  n=$(basename $d); t=${n%%-*}
  tools/mutant.sh "$n" "$PWD/$d/patch.diff" $t
done
