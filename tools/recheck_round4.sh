#!/bin/bash
# Re-runs, with the harness as it stands, the target check of every round-4 seeded change (G/H).
cd "$(dirname "$0")/.."
for d in seeded/C??-[GH]; do
  n=$(basename $d); t=${n%%-*}
  tools/mutant.sh "$n" "$PWD/$d/patch.diff" $t
done
