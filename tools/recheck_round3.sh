#!/bin/bash
# Re-runs, with the harness as it stands, the target check of every round-3 seeded change (E/F), and C10 for
# the rows of matrix 4 that were run while the C10 operand regression was in the harness.
cd "$(dirname "$0")/.."
for d in seeded/C??-[EF]; do
  n=$(basename $d); t=${n%%-*}
  extra=""
  case "$n" in C02-E|C02-F|C03-E|C03-F|C04-E|C04-F|C05-E|C05-F) [ "$t" = C10 ] || extra="C10";; esac
  tools/mutant.sh "$n" "$PWD/$d/patch.diff" $t $extra
done
