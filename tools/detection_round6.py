#!/usr/bin/env python3
"""Appends section 6 (round-6 seeded changes: G/H of C01 C10 C11 C13 C17 C18 C19 C20) to DETECTION.md from
validation-logs/seed_matrix8_target_first_pass.log (first pass: target check only, harness frozen before the changes
were looked at) and validation-logs/recheck_round6.log (harness as it stands)."""
import re, os
root = os.path.join(os.path.dirname(os.path.abspath(__file__)), '..')
def rows(path):
    out = {}
    if not os.path.exists(path):
        return out
    for l in open(path, errors='replace'):
        m = re.match(r'^(C\d\d-[GH]): FIRED:(.*?) \| silent:(.*)$', l.strip())
        if not m:
            continue
        ids, sig = [], {}
        for pid, s_ in re.findall(r'(C\d\d)\(signature=([^)]*)\)?', m.group(2)):
            if pid not in ids:
                ids.append(pid); sig[pid] = s_
        out[m.group(1)] = (ids, sig)
    return out
first = rows(os.path.join(root, 'validation-logs/seed_matrix8_target_first_pass.log'))
final = rows(os.path.join(root, 'validation-logs/recheck_round6.log'))
notes = {
    'C10-G': ' (the change is in `Range.IsEmpty`: it leaves every comparison and key untouched, so C10 as stated holds; it breaks the intersection clause of C17 and index transparency, and is caught by the C17 check - `range:intersect-excludes` - and by the directed scenario D2 under C01/C02/C17)',
    'C17-H': ' (the change only differs for `uint64` values of 2^63 and more in an indexed field: outside the key-agreement domain of C10 - numbers within 2^53 - on which C17 rests)',
}
out = ['', '## 6. Changes seeded by sub-agents, round 6 (G, H of C01 C10 C11 C13 C17 C18 C19 C20)', '',
       'Fifteen changes (the sixteenth, C20-G, was withdrawn by its author: the existing suite exposed it). `first pass` = the target check only, harness frozen before the changes were looked at (`seed_matrix8_target_first_pass.log`); `harness as it stands` = `recheck_round6.log`.', '',
       '| change | target | first pass: target fired? | harness as it stands: target | signature reported by the target check |', '|---|---|---|---|---|']
nt = nf = 0
for name in sorted(first):
    t = name[:3]
    ids, sig = first[name]
    hit = t in ids
    nt += hit
    fids, fsig = final.get(name, ([], {}))
    fin = 'fires' if t in fids else ('silent' if name in final else 'not re-run')
    fin += notes.get(name, '')
    nf += t in fids
    s_ = fsig.get(t) or sig.get(t) or ''
    out.append('| %s | %s | %s | %s | `%s` |' % (name, t, 'yes' if hit else '**no**', fin, s_[:80]))
out += ['', 'Totals over %d changes: first pass - target check fired for %d; with the harness as it stands the target check fires for %d.' % (len(first), nt, nf), '']
md = open(os.path.join(root, 'DETECTION.md')).read().split('\n## 6. ')[0].rstrip() + '\n'
open(os.path.join(root, 'DETECTION.md'), 'w').write(md + "\n".join(out))
print("\n".join(out[-3:]))
