#!/bin/bash
# Reverts each fix: commit of /repo in a scratch copy and runs the quick checks: every fix must be missed by no one.
cd "$(dirname "$0")/.."
PROPS="${PROPS:-C01 C02 C03 C04 C06 C08 C09 C10 C11 C12 C13 C14 C15 C16 C17 C18 C19 C20}"
for c in $(git -C /repo log --format=%h --grep='^fix:' ); do
  tools/mutant.sh "revert-$c($(git -C /repo log -1 --format=%s $c | cut -c6-60))" -R:$c $PROPS
done
