#!/usr/bin/env python3
"""Writes meta.json for every seeded change under /verif/seeded from its notes.md and the detection logs.
usage: seed_meta.py <matrix-log> [<matrix-log> ...]"""
import sys, re, json, os, glob
root = os.path.join(os.path.dirname(os.path.abspath(__file__)), '..', 'seeded')
fired = {}
for path in sys.argv[1:]:
    for line in open(path, errors='replace'):
        m = re.match(r'^(C\d\d-[A-L]): FIRED:(.*?) \| silent:(.*)$', line.strip())
        if m:
            ids = []
            for pid in re.findall(r'C\d\d', m.group(2)):
                if pid not in ids:
                    ids.append(pid)
            sig = dict(re.findall(r'(C\d\d)\(signature=([^)]*)', m.group(2)))
            old = fired.get(m.group(1), ([], {}))
            merged = list(old[0]) + [x for x in ids if x not in old[0]]
            osig = dict(old[1]); osig.update(sig)
            fired[m.group(1)] = (sorted(merged), osig)
# alarms that were the harness's own fault at the time of the run (DESIGN.md section 17) are not detections
spurious_c10 = {'C02-E', 'C02-F', 'C03-E', 'C03-F', 'C04-E', 'C04-F', 'C05-E', 'C05-F'}
for k in list(fired):
    ids, sig = fired[k]
    if k in spurious_c10:
        ids = [i for i in ids if i != 'C10']
    if k == 'C10-F':
        ids = [i for i in ids if i != 'C14']
    fired[k] = (ids, sig)
for d in sorted(glob.glob(os.path.join(root, 'C*-*'))):
    name = os.path.basename(d)
    prop = name[:3]
    notes = open(os.path.join(d, 'notes.md'), errors='replace').read() if os.path.exists(os.path.join(d, 'notes.md')) else ''
    paras = [p.strip() for p in re.split(r'\n\s*\n', notes) if p.strip()]
    needs = [l.strip('-* ').strip() for l in notes.splitlines() if re.search(r'\bneed', l, re.I)]
    files = sorted(os.listdir(d))
    ids, sigs = fired.get(name, ([], {}))
    touched = sorted(set(re.findall(r'^\+\+\+ b/(\S+)', open(os.path.join(d, 'patch.diff')).read(), re.M)))
    meta = {
        "id": name,
        "breaks_property": prop,
        "origin": "written by a fresh sub-agent that was given only the text of property %s and a private git worktree of /repo (nothing from /verif)" % prop,
        "files_touched": touched,
        "summary": (paras[0][:600] if paras else ''),
        "needs_to_manifest": needs[:6] or ["see notes.md"],
        "demonstration": [f for f in files if f.endswith('_test.go')],
        "confirmed_by": "tools/confirm_seed.sh in a scratch copy of /repo: patch applies and builds; `go test -vet=off -count=1 ./...` shows exactly the 11 data-less failures of the baseline; the demonstration test fails with the patch and passes without it",
        "checks_run": "tools/mutant.sh %s seeded/%s/patch.diff <all twenty properties> (quick tier, default seed, scratch copy of /repo and of the harness)" % (name, name),
        "detected_by_quick_checks": ids,
        "detected_by_target_property": prop in ids,
        "first_signature": sigs.get(prop) or (sigs.get(ids[0]) if ids else None),
    }
    json.dump(meta, open(os.path.join(d, 'meta.json'), 'w'), indent=1)
print("meta.json written for", len(glob.glob(os.path.join(root, 'C*-*'))), "seeds;", sum(1 for k, v in fired.items() if v[0]), "with detections recorded")
