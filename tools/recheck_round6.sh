#!/bin/bash
# Re-runs, with the harness as it stands, the target check of every round-6 seeded change (G/H of C01 C10 C11 C13 C17 C18 C19 C20).
cd "$(dirname "$0")/.."
for p in C01 C10 C11 C13 C17 C18 C19 C20; do for l in G H; do
  d=seeded/$p-$l; [ -f $d/patch.diff ] || continue
  tools/mutant.sh "$p-$l" "$PWD/$d/patch.diff" $p
done; done
