#!/usr/bin/env python3
"""Appends section 7 (round-7 seeded changes: K/L of C02 C06 C12) to DETECTION.md from
validation-logs/seed_matrix9_target_first_pass.log and validation-logs/recheck_round7.log."""
import re, os
root = os.path.join(os.path.dirname(os.path.abspath(__file__)), '..')
def rows(path):
    out = {}
    if not os.path.exists(path):
        return out
    for l in open(path, errors='replace'):
        m = re.match(r'^(C\d\d-[KL]): FIRED:(.*?) \| silent:(.*)$', l.strip())
        if not m:
            continue
        ids, sig = [], {}
        for pid, s_ in re.findall(r'(C\d\d)\(signature=([^)]*)\)?', m.group(2)):
            if pid not in ids:
                ids.append(pid); sig[pid] = s_
        out[m.group(1)] = (ids, sig)
    return out
first = rows(os.path.join(root, 'validation-logs/seed_matrix9_target_first_pass.log'))
final = rows(os.path.join(root, 'validation-logs/recheck_round7.log'))
notes = {
    'C06-K': ' (the change only differs when one collection is named like another plus `;` and more text: C13 quantifies over names free of the reserved `;` separator, and the unchanged tree itself does not isolate a collection named `c;d:z` from `c` - see DESIGN.md section 15)',
}
out = ['', '## 7. Changes seeded by sub-agents, round 7 (K, L of C02 C06 C12)', '',
       'Six changes. `first pass` = the target check only, harness as it stood after round 6 (`seed_matrix9_target_first_pass.log`); `harness as it stands` = `recheck_round7.log`. C02-K is, line for line, the change another agent had delivered as C10-G one round earlier.', '',
       '| change | target | first pass: target fired? | harness as it stands: target | signature reported by the target check |', '|---|---|---|---|---|']
nt = nf = 0
for name in sorted(first):
    t = name[:3]
    ids, sig = first[name]
    hit = t in ids
    nt += hit
    fids, fsig = final.get(name, ([], {}))
    fin = 'fires' if t in fids else ('silent' if name in final else 'not re-run')
    fin += notes.get(name, '')
    nf += t in fids
    s_ = fsig.get(t) or sig.get(t) or ''
    out.append('| %s | %s | %s | %s | `%s` |' % (name, t, 'yes' if hit else '**no**', fin, s_[:80]))
out += ['', 'Totals over %d changes: first pass - target check fired for %d; with the harness as it stands the target check fires for %d.' % (len(first), nt, nf), '']
md = open(os.path.join(root, 'DETECTION.md')).read().split('\n## 7. ')[0].rstrip() + '\n'
open(os.path.join(root, 'DETECTION.md'), 'w').write(md + "\n".join(out))
print("\n".join(out[-3:]))
