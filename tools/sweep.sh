#!/bin/bash
# tools/sweep.sh <tier> <seed>... : runs every check at every given seed from fresh processes; prints one line per run; non-zero exit if any alarm.
cd "$(dirname "$0")/.."
TIER="$1"; shift
BAD=0
for S in "$@"; do
  for P in C01 C02 C03 C04 C05 C06 C07 C08 C09 C10 C11 C12 C13 C14 C15 C16 C17 C18 C19 C20; do
    OUT=$(VERIF_SEED=$S ./check $P $TIER 2>&1); RC=$?
    echo "seed=$S $P rc=$RC $(echo "$OUT" | tail -1 | cut -c1-160)"
    if [ $RC -ne 0 ]; then BAD=1; echo "$OUT" | grep -A6 '^VIOLATION' | head -40; fi
  done
done
exit $BAD
