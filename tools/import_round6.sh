#!/bin/bash
# tools/import_round6.sh <prop> : confirms (tools/confirm_seed.sh) and copies the round-6 deliverables of one sub-agent
# from /tmp/wt7/<prop>/_seeded/{A,B}.* to /verif/seeded/<prop>-{G,H}/ (patch.diff, demonstration, notes.md).
cd "$(dirname "$0")/.."
P="$1"; SD=/tmp/wt7/$P/_seeded
for V in A B; do
  [ -f "$SD/$V.diff" ] || { echo "$P $V: no diff"; continue; }
  L=G; [ $V = B ] && L=H
  if tools/confirm_seed.sh "$SD" $V; then
    D=seeded/$P-$L; mkdir -p $D
    cp "$SD/$V.diff" $D/patch.diff; cp "$SD"/${V}_demo*_test.go $D/; cp "$SD/$V.md" $D/notes.md
    echo "$P $V -> $D"
  else
    echo "$P $V: NOT CONFIRMED"
  fi
done
