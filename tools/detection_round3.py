#!/usr/bin/env python3
"""Appends section 3 (round-3 seeded changes, E/F) to DETECTION.md from validation-logs/seed_matrix4.log,
seed_matrix5.log (first pass) and recheck_round3.log (harness as it stands)."""
import re, os
root = os.path.join(os.path.dirname(os.path.abspath(__file__)), '..')
def rows(path):
    out = {}
    if not os.path.exists(path):
        return out
    for l in open(path, errors='replace'):
        m = re.match(r'^(C\d\d-[EF]): FIRED:(.*?) \| silent:(.*)$', l.strip())
        if not m:
            continue
        ids, sig = [], {}
        for pid, s in re.findall(r'(C\d\d)\(signature=([^)]*)\)?', m.group(2)):
            if pid not in ids:
                ids.append(pid)
                sig[pid] = s
        out[m.group(1)] = (ids, sig)
    return out
first = rows(os.path.join(root, 'validation-logs/seed_matrix4.log'))
first.update(rows(os.path.join(root, 'validation-logs/seed_matrix5.log')))
final = rows(os.path.join(root, 'validation-logs/recheck_round3.log'))
spurious_c10 = {'C02-E', 'C02-F', 'C03-E', 'C03-F', 'C04-E', 'C04-F', 'C05-E', 'C05-F'}
spurious_other = {'C10-F': 'C14'}  # the harness's own false alarm (badger transaction-size limit): see DESIGN.md section 17
md = open(os.path.join(root, 'DETECTION.md')).read()
md = md.split('\n## 3. ')[0].rstrip() + '\n'
out = ['', '## 3. Changes seeded by sub-agents, round 3 (E, F)', '',
       'Forty changes: two per property, from sub-agents that were told what rounds 1 and 2 had tried and asked for rare conjunctions (size thresholds, one backend, one fault position, one interleaving, state left by an earlier call, unusual but valid Go types or bytes). `first pass` = the harness as it stood when the change was first run against all twenty quick checks (logs `seed_matrix4.log`, `seed_matrix5.log`); `harness as it stands` = re-run of the target check (`recheck_round3.log`).', '',
       '| change | target | first pass: target fired? | first pass: all checks that fired | harness as it stands: target | signature reported by the target check |', '|---|---|---|---|---|---|']
nt = nf = na = 0
for name in sorted(first):
    t = name[:3]
    ids, sig = first[name]
    ids = [i for i in ids if not (i == 'C10' and name in spurious_c10 and t != 'C10') and spurious_other.get(name) != i]
    hit = t in ids
    nt += hit
    na += bool(ids)
    fids, fsig = final.get(name, ([], {}))
    fin = 'fires' if t in fids else ('**silent**' if name in final else 'not re-run')
    nf += t in fids
    s = fsig.get(t) or sig.get(t) or ''
    out.append('| %s | %s | %s | %s | %s | `%s` |' % (name, t, 'yes' if hit else '**no**', ' '.join(ids) or '**none**', fin, s[:80]))
out += ['', 'Totals over %d changes: first pass - target check fired for %d, some check fired for %d; with the harness as it stands the target check fires for %d.' % (len(first), nt, na, nf),
        '', 'The C10 column of the first eight rows of matrix 4 is left out: those runs used a harness snapshot that held the C10 operand regression (DESIGN.md section 17), so C10 "fired" on changes that cannot touch ordering; C10 was re-run for those rows with the repaired harness and is silent. One alarm of C14 in the row C10-F was a false alarm of the harness (an operation beyond the transaction-size limit of badger, generated because cases were not yet pure functions of the seed; DESIGN.md section 17) and is not counted.', '']
open(os.path.join(root, 'DETECTION.md'), 'w').write(md + "\n".join(out))
print("\n".join(out[-4:]))

# ---- section 4: round 4 (G, H)
def rows4(path):
    out = {}
    if not os.path.exists(path):
        return out
    for l in open(path, errors='replace'):
        m = re.match(r'^(C\d\d-[GH]): FIRED:(.*?) \| silent:(.*)$', l.strip())
        if not m:
            continue
        ids, sig = [], {}
        for pid, s_ in re.findall(r'(C\d\d)\(signature=([^)]*)\)?', m.group(2)):
            if pid not in ids:
                ids.append(pid)
                sig[pid] = s_
        out[m.group(1)] = (ids, sig)
    return out
first4 = rows4(os.path.join(root, 'validation-logs/seed_matrix6.log'))
final4 = rows4(os.path.join(root, 'validation-logs/recheck_round4.log'))
if first4:
    out = ['', '## 4. Changes seeded by sub-agents, round 4 (G, H)', '',
           'Twelve changes for C03 C06 C09 C14 C15 C16. `first pass` = harness frozen before the changes were looked at (`seed_matrix6.log`); `harness as it stands` = `recheck_round4.log`.', '',
           '| change | target | first pass: target fired? | first pass: all checks that fired | harness as it stands: target | signature reported by the target check |', '|---|---|---|---|---|---|']
    nt = nf = na = 0
    for name in sorted(first4):
        t = name[:3]
        ids, sig = first4[name]
        hit = t in ids
        nt += hit
        na += bool(ids)
        fids, fsig = final4.get(name, ([], {}))
        fin = 'fires' if t in fids else ('silent' if name in final4 else 'not re-run')
        if name == 'C16-H':
            fin += ' (the change only differs outside the supported domain: integers beyond 2^53 in an indexed field)'
        nf += t in fids
        s_ = fsig.get(t) or sig.get(t) or ''
        out.append('| %s | %s | %s | %s | %s | `%s` |' % (name, t, 'yes' if hit else '**no**', ' '.join(ids) or '**none**', fin, s_[:80]))
    out += ['', 'Totals over %d changes: first pass - target check fired for %d, some check fired for %d; with the harness as it stands the target check fires for %d.' % (len(first4), nt, na, nf), '']
    md2 = open(os.path.join(root, 'DETECTION.md')).read().split('\n## 4. ')[0].rstrip() + '\n'
    open(os.path.join(root, 'DETECTION.md'), 'w').write(md2 + "\n".join(out))
    print("\n".join(out[-3:]))

# ---- section 5: round 5 (I, J)
def rows5(path):
    out = {}
    if not os.path.exists(path):
        return out
    for l in open(path, errors='replace'):
        m = re.match(r'^(C\d\d-[IJ]): FIRED:(.*?) \| silent:(.*)$', l.strip())
        if not m:
            continue
        ids, sig = [], {}
        for pid, s_ in re.findall(r'(C\d\d)\(signature=([^)]*)\)?', m.group(2)):
            if pid not in ids:
                ids.append(pid)
                sig[pid] = s_
        out[m.group(1)] = (ids, sig)
    return out
first5 = rows5(os.path.join(root, 'validation-logs/seed_matrix7.log'))
final5 = rows5(os.path.join(root, 'validation-logs/recheck_round5.log'))
if first5:
    out = ['', '## 5. Changes seeded by sub-agents, round 5 (I, J)', '',
           'Twelve changes for C02 C04 C05 C07 C08 C12. `first pass` = harness frozen at the end of round 4 (`seed_matrix7.log`); `harness as it stands` = `recheck_round5.log`.', '',
           '| change | target | first pass: target fired? | first pass: all checks that fired | harness as it stands: target | signature reported by the target check |', '|---|---|---|---|---|---|']
    nt = nf = na = 0
    for name in sorted(first5):
        t = name[:3]
        ids, sig = first5[name]
        hit = t in ids
        nt += hit
        na += bool(ids)
        fids, fsig = final5.get(name, ([], {}))
        fin = 'fires' if t in fids else ('**silent**' if name in final5 else 'not re-run')
        nf += t in fids
        s_ = fsig.get(t) or sig.get(t) or ''
        out.append('| %s | %s | %s | %s | %s | `%s` |' % (name, t, 'yes' if hit else '**no**', ' '.join(ids) or '**none**', fin, s_[:80]))
    out += ['', 'Totals over %d changes: first pass - target check fired for %d, some check fired for %d; with the harness as it stands the target check fires for %d.' % (len(first5), nt, na, nf), '']
    md3 = open(os.path.join(root, 'DETECTION.md')).read().split('\n## 5. ')[0].rstrip() + '\n'
    open(os.path.join(root, 'DETECTION.md'), 'w').write(md3 + "\n".join(out))
    print("\n".join(out[-3:]))
