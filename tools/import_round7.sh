#!/bin/bash
# tools/import_round6.sh <prop> : confirms (tools/confirm_seed.sh) and copies the round-7 deliverables of one sub-agent
# from /tmp/wt8/<prop>/_seeded/{A,B}.* to /verif/seeded/<prop>-{K,L}/ (patch.diff, demonstration, notes.md).
cd "$(dirname "$0")/.."
P="$1"; SD=/tmp/wt8/$P/_seeded
for V in A B; do
  [ -f "$SD/$V.diff" ] || { echo "$P $V: no diff"; continue; }
  L=K; [ $V = B ] && L=L
  if tools/confirm_seed.sh "$SD" $V; then
    D=seeded/$P-$L; mkdir -p $D
    cp "$SD/$V.diff" $D/patch.diff; cp "$SD"/${V}_demo*_test.go $D/; cp "$SD/$V.md" $D/notes.md
    echo "$P $V -> $D"
  else
    echo "$P $V: NOT CONFIRMED"
  fi
done
