#!/bin/bash
# tools/confirm_seed.sh <worktree-seeded-dir> <A|B> : confirms a seeded change independently, in a scratch copy:
#  (1) the patch applies, the project builds, the existing suite has exactly the 11 known failures;
#  (2) the demonstration fails with the change and passes without it.
set -u
SD="$1"; V="$2"
export GOFLAGS=-mod=mod GOPROXY=off GOSUMDB=off GOTOOLCHAIN=local
SCR="$(mktemp -d /tmp/vconf-XXXXXX)"; trap 'rm -rf "$SCR"' EXIT
rsync -a --exclude .git --exclude _seeded /repo/ "$SCR/repo/"
cd "$SCR/repo"
DEMO=$(ls "$SD"/${V}_demo*_test.go 2>/dev/null | head -1)
if [ -z "$DEMO" ]; then echo "$SD $V: no demo test file (custom demo?)"; ls "$SD"; exit 3; fi
PKG=$(grep -m1 '^package ' "$DEMO" | awk '{print $2}')
case "$PKG" in clover|clover_test) DIR=. ;; internal|internal_test) DIR=internal ;; index|index_test) DIR=index ;; document|document_test) DIR=document ;; query|query_test) DIR=query ;; bbolt|bbolt_test) DIR=store/bbolt ;; badger|badger_test) DIR=store/badger ;; util|util_test) DIR=util ;; *) echo "unknown package $PKG"; exit 3;; esac
cp "$DEMO" "$DIR/zz_seeded_demo_test.go"
TESTS=$(grep -o '^func Test[A-Za-z0-9_]*' "$DEMO" | sed 's/func //' | paste -sd'|')
run_demo() { go test -vet=off -count=1 -run "^($TESTS)\$" ./$DIR/ > "$SCR/demo.$1" 2>&1; echo $?; }
CLEAN=$(run_demo clean)
patch -p1 -s < "$SD/$V.diff" || { echo "$SD $V: PATCH DOES NOT APPLY"; exit 2; }
go build ./... > "$SCR/build" 2>&1 || { echo "$SD $V: DOES NOT BUILD"; cat "$SCR/build" | head; exit 2; }
MUT=$(run_demo mut)
rm "$DIR/zz_seeded_demo_test.go"
go test -vet=off -count=1 ./... 2>&1 | grep -E '^--- FAIL' | awk '{print $3}' | sort > "$SCR/fails"
NF=$(wc -l < "$SCR/fails")
EXPECT="TestCompareDocumentFields TestCompareString TestDeleteByIdWithIndex TestIndexDelete TestIndexNested TestIndexObjectField TestIndexQueryWithSort TestIndexUpdate TestOrCriteria TestSort TestSortWithIndex"
GOT=$(paste -sd' ' "$SCR/fails")
SUITE=ok; [ "$GOT" = "$EXPECT" ] || SUITE="CHANGED($GOT)"
echo "$SD $V: demo clean rc=$CLEAN, demo mutated rc=$MUT, suite=$SUITE (failures=$NF)"
[ "$CLEAN" = 0 ] && [ "$MUT" != 0 ] && [ "$SUITE" = ok ]
