#!/usr/bin/env python3
"""Writes the prompts given to the sub-agents that seed defects: seed_prompts.py <dir> <round-text> <prop> [<prop>...].
Each agent gets only the text of one property, its own git worktree <dir>/<prop> of /repo and the list of ideas already used."""
import json, glob, os, sys
base, rnd, pids = sys.argv[1], sys.argv[2], sys.argv[3:]
props = {}
for l in open('/verif/properties.jsonl'):
    p = json.loads(l); props[p['id']] = p
tried = {}
for d in sorted(glob.glob('/verif/seeded/C*-*')):
    pid = os.path.basename(d)[:3]
    n = open(os.path.join(d, 'notes.md'), errors='replace').read().strip().splitlines()
    head = [l for l in n if l.strip()][:2]
    tried.setdefault(pid, []).append(" ".join(h.strip('# ').strip() for h in head)[:300])
tmpl = '''You are helping to evaluate a verification framework by producing *seeded defects* (mutations) for the Go project ostafen/clover (an embedded document database). You work ONLY inside your own git worktree at __WT__ (a checkout of the project). Do NOT read, list or use anything under /verif or /repo, and do not write anywhere except __WT__ and __BASE__/__ID__-scratch. Do not commit. NEVER use `git stash`: to save and restore a change use `git diff > file; git checkout -- .; git apply file`.

Every shell command needs this environment (no network is available):
  export GOFLAGS=-mod=mod GOPROXY=off GOSUMDB=off GOTOOLCHAIN=local
The existing test suite is run with:  cd __WT__ && go test -vet=off -count=1 ./...
IMPORTANT: 11 tests of the root package already fail on the untouched tree because the dataset test/data/airlines.json was emptied on purpose: TestCompareDocumentFields, TestCompareString, TestDeleteByIdWithIndex, TestIndexDelete, TestIndexNested, TestIndexObjectField, TestIndexQueryWithSort, TestIndexUpdate, TestOrCriteria, TestSort, TestSortWithIndex. Ignore those eleven; every OTHER test must still pass with your change (the set of failing tests must be exactly those 11 before and after). Do not edit any existing test or test data. The tests leave directories named clover-test* and export-dir* under /tmp: remove those you created when you are done.

Here is the semantic property the framework is supposed to guard:

__PROP__

__ROUND__ The framework caught nearly everything so far, so be inventive. The following ideas were already used - do NOT repeat them or close variants:
__TRIED__

YOUR TASK: produce TWO new, independent changes (mutation A and mutation B) to the non-test Go source of the project, each of which
  1. still compiles and leaves the existing test results unchanged (same 11 failures, everything else passing);
  2. BREAKS the property above for some inputs / histories / schedules / crash points / fault positions;
  3. is as HARD to expose as you can make it while still being a realistic maintainer mistake: it should need a rare conjunction - e.g. a particular value AND a particular index configuration AND a particular direction; a threshold in size or count that ordinary tests never reach; a path only taken on one backend; a failure or crash at exactly one internal step; an interleaving of two specific operations; state that survives from an earlier, unrelated-looking call on the same handle; an argument of an unusual but valid Go type; a name or value with unusual bytes. Ordinary use must not expose it.
  4. is small (a few lines to a few dozen lines), plausible as a refactoring / optimisation / clean-up, and does not touch index/verif_export.go or any *_test.go file.
Make the two mutations of different nature and in different files if possible.

For each mutation also write a DEMONSTRATION: a Go test file that FAILS with the mutation applied and PASSES on the untouched tree, deterministic if at all possible (force schedules or faults with a wrapping store passed to clover.OpenWithStore).

DELIVERABLES - write them into __WT__/_seeded/ :
  A.diff  and  B.diff   : `git diff` output of each mutation alone (relative to the untouched tree, applicable with `git apply` from the repository root; ONLY the mutation).
  A_demo_test.go and B_demo_test.go : the demonstrations; the FIRST LINES must be a comment saying where the file must be placed and the exact command to run it. The package clause decides the directory: `package clover_test`/`package clover` = repository root, `package internal` = internal/, `package index`/`index_test` = index/, `package document`/`document_test` = document/, `package query`/`query_test` = query/, `package bbolt` = store/bbolt/, `package badger` = store/badger/.
  A.md and B.md : 5-15 lines each: what the change is, which part of the property it breaks, what exactly is needed for it to manifest, and the commands you ran with their observed results.
Before finishing, restore the worktree source to the untouched state (git checkout -- . ; leave _seeded/ in place) and double check that each diff applies cleanly with `git apply --check`.

Work autonomously; do not ask questions. When done, reply with a short summary of the two mutations.
'''
for pid in pids:
    p = props[pid]
    txt = "PROPERTY %s: %s\n\nSTATEMENT: %s\n\nQUANTIFIER (%s): %s\n\nWHY THE EXISTING TESTS CANNOT SETTLE IT: %s\n\nCODE ANCHORS: files %s\n" % (p['id'], p['title'], p['statement'], ", ".join(p['quantifier']['over']), p['quantifier']['text'], p['why_tests_cant'], ", ".join(p['anchors']['files']))
    t = tmpl.replace('__WT__', base + '/' + pid).replace('__BASE__', base).replace('__ID__', pid).replace('__PROP__', txt).replace('__ROUND__', rnd).replace('__TRIED__', "\n".join("  - " + x for x in tried.get(pid, [])))
    open('%s/prompt_%s.txt' % (base, pid), 'w').write(t)
print("prompts written:", " ".join(pids))
