#!/bin/bash
# tools/mutant.sh <name> <patch-file|-R:commit> <prop> [<prop>...]
# Applies a change to a scratch copy of /repo (never to /repo itself), builds the harness against the
# copy through an alternate -modfile, runs the quick checks of the given properties and prints which fired.
set -u
NAME="$1"; CHANGE="$2"; shift 2
export GOFLAGS=-mod=mod GOPROXY=off GOSUMDB=off GOTOOLCHAIN=local
HERE="$(cd "$(dirname "$0")/.." && pwd)"
SCR="$(mktemp -d /tmp/vmut-XXXXXX)"
trap '[ -n "${KEEP:-}" ] && echo "kept $SCR" || rm -rf "$SCR"' EXIT
rsync -a --exclude .git /repo/ "$SCR/repo/"
case "$CHANGE" in
  -R:*) git -C /repo show "${CHANGE#-R:}" | (cd "$SCR/repo" && patch -R -p1 -s) || { echo "$NAME: cannot revert"; exit 2; } ;;
  *) (cd "$SCR/repo" && patch -p1 -s < "$CHANGE") || { echo "$NAME: cannot apply"; exit 2; } ;;
esac
rsync -a "$HERE/harness/" "$SCR/harness/"   # a private snapshot: editing /verif/harness meanwhile is harmless
sed "s#=> /repo#=> $SCR/repo#" "$SCR/harness/go.mod" > "$SCR/go.mod"
cp "$SCR/harness/go.sum" "$SCR/go.sum"
cd "$SCR/harness"
if ! go build -modfile="$SCR/go.mod" -tags verif -o "$SCR/vcheck" ./cmd/vcheck > "$SCR/build.log" 2>&1; then
  echo "$NAME: BUILD FAILED"; head -5 "$SCR/build.log"; exit 2
fi
RACE=""
for P in "$@"; do [ "$P" = C07 ] && { go build -race -modfile="$SCR/go.mod" -tags verif -o "$SCR/vcheck-race" ./cmd/vcheck >/dev/null 2>&1 && RACE="-racebin $SCR/vcheck-race"; }; done
mkdir -p "$SCR/verif" "$SCR/work"
cp "$HERE/known_findings.json" "$SCR/verif/" 2>/dev/null   # a finding listed as known is not what a seeded change is measured by
FIRED=""; SILENT=""
for P in "$@"; do
  R=""; [ "$P" = C07 ] && R="$RACE"
  "$SCR/vcheck" run -prop "$P" -tier quick -verif "$SCR/verif" -work "$SCR/work" $R > "$SCR/out.$P" 2>&1
  RC=$?
  if [ $RC -eq 1 ]; then
    SIG=$(grep -m1 -o 'signature=[^ ]*' "$SCR/out.$P")
    FIRED="$FIRED $P($SIG)"
    mkdir -p /tmp/vmut-fired && head -c 200000 "$SCR/out.$P" > "/tmp/vmut-fired/$NAME.$P.out"   # kept for diagnosis only
  elif [ $RC -eq 0 ]; then SILENT="$SILENT $P"; else SILENT="$SILENT $P[rc=$RC]"; fi
  rm -rf "$SCR/work"/*
done
echo "$NAME: FIRED:${FIRED:- none} | silent:${SILENT:- none}"
