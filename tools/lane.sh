#!/bin/bash
# tools/lane.sh <seed-name>... : runs the target check (quick) of each named seeded change through tools/mutant.sh, one after the other.
# PROPS="C01 C02 ..." runs those checks instead of the target alone.
cd "$(dirname "$0")/.."
for n in "$@"; do t=${n%%-*}; tools/mutant.sh $n $PWD/seeded/$n/patch.diff ${PROPS:-$t}; done
