#!/bin/bash
# Runs every quick check against every behaviour-preserving change under /verif/refactors: all must stay silent.
cd "$(dirname "$0")/.."
PROPS="${PROPS:-C01 C02 C03 C04 C05 C06 C07 C08 C09 C10 C11 C12 C13 C14 C15 C16 C17 C18 C19 C20}"
for d in ${REFS:-refactors/*}; do
  [ -f "$d/patch.diff" ] || continue
  tools/mutant.sh "$(basename $d)" "$PWD/$d/patch.diff" $PROPS
done
